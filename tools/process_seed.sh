#!/bin/bash
# usage: process_seed.sh <property> <round-suffix> <worktree> <crate-of-demo> [extra crates]
# stores the seed under seeded/<property>-<suffix>, confirms it in its worktree, registers it as a (pending) mutant,
# removes the worktree. Appends one line to out/confirm_all.log.
P=$1; S=$2; WT=$3; CR=$4; shift 4
cd /verif || exit 2
D=seeded/$P-$S
mkdir -p $D && cp -r $WT/SEED/patch.diff $WT/SEED/demo $D/ && cp $WT/SEED/meta.json $D/agent_meta.json
bash tools/confirm_seed.sh $WT $CR seed_demo "$@" > $WT.confirm.out 2>&1
RES=$(tail -2 $WT.confirm.out | tr '\n' ' ')
cp $WT/SEED/confirm.log $D/confirm.log 2>/dev/null
echo "$P-$S $RES" >> out/confirm_all.log
python3 - "$P" "$S" <<'PY'
import json,sys
P,S=sys.argv[1],sys.argv[2]
p='/verif/selftest/mutants.json'
d=json.load(open(p)); have={m['id'] for m in d['mutants']}
m=dict(id="seed-%s-%s"%(P,S), property=P, patch="seeded/%s-%s/patch.diff"%(P,S), expect=[], note="seed (pending evaluation)")
if m['id'] not in have: d['mutants'].append(m)
json.dump(d,open(p,'w'),indent=1)
PY
case "$RES" in *CONFIRMED*) git -C /repo worktree remove --force $WT; rm -rf $WT; git -C /repo worktree prune;; esac
