#!/usr/bin/env python3
"""Run the mutant self-tests of one or all properties (the same code the thorough tier runs) and print a table.
usage: tools/run_selftests.py [Cxx ...]   (env VERIF_SELFTEST_ONLY=<substring> to select mutants by id)"""
import json
import os
import sys

HERE = os.path.dirname(os.path.abspath(__file__))
sys.path.insert(0, os.path.join(os.path.dirname(HERE), "svrules"))
import run as runner  # noqa: E402
import thorough  # noqa: E402

props = sys.argv[1:] or sorted({m["property"] for m in json.load(open(os.path.join(os.path.dirname(HERE), "selftest", "mutants.json")))["mutants"]})
only = os.environ.get("VERIF_SELFTEST_ONLY")
allres = []
for p in props:
    ctx = runner.Ctx(p, "thorough", "/repo", 0)
    if only:
        spec_path = os.path.join(os.path.dirname(HERE), "selftest", "mutants.json")
        spec = json.load(open(spec_path))
        keep = [m for m in spec["mutants"] if only in m["id"]]
        orig = thorough.json.load
        thorough.json.load = lambda fh, _k=keep, _o=orig: (dict(mutants=_k) if fh.name.endswith("mutants.json") else _o(fh))
    thorough.selftests(ctx)
    for r in ctx.selftests:
        status = ("SILENT(ok)" if r.get("silent") else "FALSE-ALARM") if r.get("must_be_silent") and r["applied"] else "FIRED" if r["fired"] else ("undetected(expected)" if r["applied"] and not r["expect"] else
                                              ("NOT-APPLIED" if not r["applied"] else "MISSED"))
        print("%-4s %-34s %-22s %s %s" % (p, r["mutant"], status, r.get("violations", [])[:3], r.get("note", "")), flush=True)
        allres.append(dict(property=p, **r))
json.dump(allres, open(os.path.join(os.path.dirname(HERE), "out", "selftests_last.json"), "w"), indent=1)
missed = [r for r in allres if r["applied"] and r["expect"] and not r["fired"]]
fa = [r for r in allres if r.get("must_be_silent") and r["applied"] and not r.get("silent")]
print("refactors: silent=%d false-alarms=%d" % (sum(1 for r in allres if r.get("silent")), len(fa)))
print("mutants=%d fired=%d missed=%d expected-undetected=%d not-applied=%d" % (
    len(allres), sum(1 for r in allres if r["fired"]), len(missed),
    sum(1 for r in allres if r["applied"] and not r["expect"] and not r.get("must_be_silent")),
    sum(1 for r in allres if not r["applied"])))
