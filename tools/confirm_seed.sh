#!/bin/bash
# usage: confirm_seed.sh <worktree> <crate-of-demo> <demo-test-name> [extra crates to test...]
# Confirms in the scratch worktree: (1) existing tests pass with the patch, (2) demo fails with it, (3) demo passes without.
WT=$1; CR=$2; DEMO=$3; shift 3
export CARGO_TARGET_DIR=$WT/target CARGO_NET_OFFLINE=true
cd $WT || exit 2
LOG=$WT/SEED/confirm.log; : > $LOG
DEMOF=$CR/tests/$DEMO.rs
[ -f $DEMOF ] || { echo "no demo file $DEMOF" | tee -a $LOG; exit 2; }
git apply --check -R SEED/patch.diff 2>/dev/null || { echo "patch not currently applied; applying" >> $LOG; git apply SEED/patch.diff || exit 2; }
mv $DEMOF /tmp/_demo_$$.rs
PK=""; for c in $CR "$@"; do PK="$PK -p $c"; done
echo "== existing tests with patch ($PK)" >> $LOG
cargo test --offline -j 8 $PK --lib --tests >> $LOG 2>&1; R1=$?
mv /tmp/_demo_$$.rs $DEMOF
echo "== demo with patch" >> $LOG
cargo test --offline -j 8 -p $CR --test $DEMO >> $LOG 2>&1; R2=$?
git apply -R SEED/patch.diff
echo "== demo without patch" >> $LOG
cargo test --offline -j 8 -p $CR --test $DEMO >> $LOG 2>&1; R3=$?
git apply SEED/patch.diff
echo "RESULT existing_tests_rc=$R1 demo_with_patch_rc=$R2 demo_without_patch_rc=$R3" | tee -a $LOG
[ $R1 = 0 ] && [ $R2 != 0 ] && [ $R3 = 0 ] && echo CONFIRMED | tee -a $LOG
