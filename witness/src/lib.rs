//! Compile-fail witnesses (engine E3). Every witness is a `compile_fail,E0xxx` doctest paired with a compiling twin
//! that differs only in the offending part, so that a witness whose paths merely rot cannot pass.
//! Run with `cargo +nightly test --doc --offline` (error codes are only honoured on nightly).

/// C13: a value allocated in one heap cannot be stored into a value of another heap (heap branding).
/// ```compile_fail,E0521
/// use starlark::values::{Heap, Value};
/// use starlark::values::tuple::AllocTuple;
/// Heap::temp(|heap1| {
///     Heap::temp(|heap2| {
///         let s1: Value<'_> = heap1.alloc_str("abc").to_value();
///         let _v: Value<'_> = heap2.alloc(AllocTuple([s1]));
///     })
/// });
/// ```
/// twin (same heap) compiles:
/// ```
/// use starlark::values::{Heap, Value};
/// use starlark::values::tuple::AllocTuple;
/// Heap::temp(|heap1| {
///     Heap::temp(|_heap2| {
///         let s1: Value<'_> = heap1.alloc_str("abc").to_value();
///         let _v: Value<'_> = heap1.alloc(AllocTuple([s1]));
///     })
/// });
/// ```
pub struct CrossHeapStore;

/// C13: a `Value` cannot escape the closure of `Heap::temp` (it would outlive its heap).
/// ```compile_fail
/// use starlark::values::{Heap, Value};
/// let _v: Value = Heap::temp(|heap| heap.alloc(1));
/// ```
/// twin (a plain integer escapes) compiles:
/// ```
/// use starlark::values::Heap;
/// let _v: i32 = Heap::temp(|heap| heap.alloc(1).unpack_i32().unwrap());
/// ```
pub struct ValueEscapesTempHeap;

/// C04/C12: mutating a dict needs a mutable borrow: a `DictRef` (the shared borrow that iteration holds) cannot insert.
/// ```compile_fail,E0596
/// use starlark::values::{Heap, Value};
/// use starlark::values::dict::{DictRef, AllocDict};
/// Heap::temp(|heap| {
///     let d: Value = heap.alloc(AllocDict([(1, 2)]));
///     let r = DictRef::from_value(d).unwrap();
///     let k = heap.alloc(3).get_hashed().unwrap();
///     r.insert_hashed(k, heap.alloc(4));
/// });
/// ```
/// twin (an exclusively owned `Dict` can insert) compiles:
/// ```
/// use starlark::values::{Heap, Value};
/// use starlark::values::dict::{Dict, DictRef, AllocDict};
/// use starlark_map::small_map::SmallMap;
/// Heap::temp(|heap| {
///     let d: Value = heap.alloc(AllocDict([(1, 2)]));
///     let _r = DictRef::from_value(d).unwrap();
///     let mut own = Dict::new(SmallMap::new());
///     let k = heap.alloc(3).get_hashed().unwrap();
///     own.insert_hashed(k, heap.alloc(4));
/// });
/// ```
pub struct DictRefCannotInsert;

/// C20: an unfrozen heap handle is not `Send`: evaluation state cannot be moved to another thread.
/// ```compile_fail,E0277
/// use starlark::values::Heap;
/// fn need_send<T: Send>(_t: T) {}
/// Heap::temp(|heap| { need_send(heap); });
/// ```
/// twin (`FrozenValue` is `Send`) compiles:
/// ```
/// use starlark::values::FrozenValue;
/// fn need_send<T: Send>(_t: T) {}
/// need_send(FrozenValue::new_none());
/// ```
pub struct UnfrozenValueNotSend;

/// C20: frozen heaps and frozen modules are `Send + Sync` (twin only), while a `Module` (unfrozen) is not `Sync`.
/// ```compile_fail,E0277
/// use starlark::environment::Module;
/// fn need_sync<T: Sync>(_t: &T) {}
/// Module::with_temp_heap(|m| need_sync(&m));
/// ```
/// ```
/// use starlark::environment::FrozenModule;
/// use starlark::values::FrozenHeapRef;
/// fn need<T: Send + Sync>() {}
/// need::<FrozenModule>();
/// need::<FrozenHeapRef>();
/// ```
pub struct FrozenIsShareable;

/// C14: value identity (an address) supports equality and hashing only, not ordering.
/// ```compile_fail,E0369
/// use starlark::values::Heap;
/// Heap::temp(|heap| {
///     let a = heap.alloc(1).identity();
///     let b = heap.alloc(2).identity();
///     let _ = a < b;
/// });
/// ```
/// twin (equality) compiles:
/// ```
/// use starlark::values::Heap;
/// Heap::temp(|heap| {
///     let a = heap.alloc(1).identity();
///     let b = heap.alloc(2).identity();
///     let _ = a == b;
/// });
/// ```
pub struct IdentityNotOrdered;
