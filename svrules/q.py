"""interactive helper: python3 -i svrules/q.py  or  from q import *"""
import sys, os, re, glob, gc, collections
sys.path.insert(0, os.path.dirname(os.path.abspath(__file__)))
import facts, kern, extract
from kern import *
def L(config="core", repo="/repo"):
    d, info = extract.extract(repo, config)
    gc.disable(); F = facts.load(d); gc.enable()
    return F
def show(fn, calls_only=False):
    print("FN", fn.qpath, fn.loc(), "args", fn.nargs)
    for b in sorted(fn.blocks()):
        cl = " (cleanup)" if b in fn.cleanup else ""
        print(" bb%d%s" % (b, cl))
        if not calls_only:
            for st in fn.stmts_in(b):
                print("    %s = %s %s" % (st.lhs, st.kind, " ; ".join(st.ops)))
        c = fn.call_at(b)
        if c: print("    CALL %s = %s(%s) -> bb%d  [line %d]" % (c.dest, c.name, ", ".join(c.args), c.target, c.line))
        t = fn.terms.get(b)
        if t: print("    TERM", t)
