"""Loader for svfacts fact files and basic CFG queries."""
import collections
import glob
import os
import pickle
import re

LOCAL_RE = re.compile(r"\b_(\d+)\b")


class Stmt:
    __slots__ = ("bb", "line", "lhs", "kind", "ops", "idx")

    def __repr__(s):
        return "S(bb%d %s = %s %s)" % (s.bb, s.lhs, s.kind, s.ops)

    @property
    def lhs_local(s):
        return s.lhs.split(".", 1)[0]

    def text(s):
        return " ".join(s.ops)


class Call:
    __slots__ = ("bb", "dest", "generic", "guid", "full", "resolved", "ruid", "args", "target", "unwind",
                 "line", "exp", "name", "fn")

    def callee_uid(s):
        return s.ruid if s.resolved not in ("=", "?") else s.guid

    @property
    def indirect(s):
        return s.generic == "INDIRECT"

    @property
    def dest_local(s):
        return s.dest.split(".", 1)[0]

    def __repr__(s):
        return "Call(bb%d %s line %d)" % (s.bb, s.name, s.line)


class Fn:
    __slots__ = ("path", "qpath", "uid", "kind", "span", "parent", "trait", "selfty", "nargs", "locals",
                 "cleanup", "stmts", "calls", "terms", "crate", "_succ", "_blocks", "_dom", "_callbb")

    def __init__(s):
        s.locals = {}
        s.cleanup = set()
        s.stmts = []
        s.calls = []
        s.terms = {}
        s._succ = None
        s._blocks = None
        s._dom = None
        s._callbb = None

    def __repr__(s):
        return "Fn(%s)" % s.qpath

    @property
    def file(s):
        return s.span.split(":", 1)[0]

    @property
    def line(s):
        try:
            return int(s.span.split(":")[1])
        except Exception:
            return 0

    def loc(s, line=None):
        return "%s:%d" % (s.file, line if line else s.line)

    @property
    def name(s):
        return s.path.rsplit("::", 1)[-1]

    def call_at(s, bb):
        if s._callbb is None:
            s._callbb = {c.bb: c for c in s.calls}
        return s._callbb.get(bb)

    def _build(s):
        succ = collections.defaultdict(list)
        for c in s.calls:
            if c.target >= 0:
                succ[c.bb].append(c.target)
        for bb, t in s.terms.items():
            k = t[0]
            if k == "switch":
                succ[bb] += [int(x.split(":")[1]) for x in t[2].split(",") if x]
                succ[bb].append(int(t[3].split(":")[1]))
            elif k == "goto":
                succ[bb].append(int(t[1]))
            elif k == "drop":
                succ[bb].append(int(t[2]))
            elif k == "assert":
                succ[bb].append(int(t[1]))
            elif k.startswith("other"):
                succ[bb] += [int(x) for x in t[1].split(",") if x]
        s._succ = succ
        bs = set(s.terms.keys()) | {c.bb for c in s.calls} | {st.bb for st in s.stmts} | {0}
        for b in list(bs):
            bs.update(succ.get(b, ()))
        s._blocks = bs

    def succs(s, bb):
        if s._succ is None:
            s._build()
        return s._succ.get(bb, ())

    def blocks(s):
        if s._succ is None:
            s._build()
        return s._blocks

    def normal_blocks(s):
        return [b for b in s.blocks() if b not in s.cleanup]

    def returns(s):
        return [b for b, t in s.terms.items() if t[0] == "return" and b not in s.cleanup]

    def switch(s, bb):
        """-> (operand, {value: target}, otherwise) or None"""
        t = s.terms.get(bb)
        if not t or t[0] != "switch":
            return None
        tg = {}
        for x in t[2].split(","):
            if x:
                v, b = x.split(":")
                tg[int(v)] = int(b)
        return t[1], tg, int(t[3].split(":")[1])

    def stmts_in(s, bb):
        return [st for st in s.stmts if st.bb == bb]

    # ---- reachability / dominance on normal (non-cleanup) edges
    def reach(s, starts=0, cut_blocks=(), cut_edges=()):
        """blocks reachable from starts on normal edges; cut blocks are never entered"""
        seen = set()
        st = [starts] if isinstance(starts, int) else list(starts)
        while st:
            b = st.pop()
            if b in seen or b in s.cleanup or b in cut_blocks:
                continue
            seen.add(b)
            for n in s.succs(b):
                if (b, n) in cut_edges:
                    continue
                st.append(n)
        return seen

    def after(s, bb):
        """blocks reachable strictly after bb completes"""
        return s.reach(list(s.succs(bb)))

    def dominates(s, a, b):
        """every normal path entry -> b passes through block a"""
        if a == b or a == 0:
            return True
        return b not in s.reach(0, cut_blocks={a})

    def edge_dominates(s, edge, b):
        return b not in s.reach(0, cut_edges={edge})

    def must_pass(s, from_bb, through, to_blocks):
        """every normal path that leaves from_bb and arrives at a to_block passes through `through`"""
        r = s.reach(list(s.succs(from_bb)), cut_blocks=set(through))
        return not (set(to_blocks) & r)

    def must_pass_from_entry(s, through, to_blocks):
        r = s.reach(0, cut_blocks=set(through))
        return not (set(to_blocks) & r)


class Adt:
    __slots__ = ("path", "qpath", "kind", "generics", "span", "freeze", "crate", "fields", "variants")

    def __init__(s):
        s.fields = []
        s.variants = []

    def variant_by_discr(s, v):
        for name, d, idx in s.variants:
            if d == v:
                return name
        return None

    def variant_by_index(s, i):
        for name, d, idx in s.variants:
            if idx == i:
                return name
        return None


class Facts:
    def __init__(s):
        s.fns = {}
        s.adts = {}
        s.impls = []
        s.statics = []
        s.crates = {}
        s.by_qpath = collections.defaultdict(list)

    # ---- lookups
    def find(s, pattern, crate=None, kind=None):
        r = re.compile(pattern)
        return [f for f in s.fns.values() if r.search(f.qpath) and (crate is None or f.crate == crate)
                and (kind is None or f.kind == kind)]

    def one(s, pattern, crate=None, kind=None):
        r = s.find(pattern, crate, kind)
        if len(r) == 0 and "|" not in pattern:
            # the function may have moved to another module: retry with the last two path segments (Type::method)
            segs, depth, cur = [], 0, ""
            for ch in pattern:
                if ch in "<(":
                    depth += 1
                elif ch in ">)":
                    depth -= 1
                if ch == ":" and depth == 0 and cur.endswith(":"):
                    segs.append(cur[:-1])
                    cur = ""
                else:
                    cur += ch
            segs.append(cur)
            if len(segs) > 2:
                tail = "::".join(segs[-2:])
                r2 = s.find(r"(^|::|<impl [^>]*)" + tail if not tail.startswith("<") else tail, crate, kind)
                if len(r2) == 0 and not segs[-1].startswith("<") and re.match(r"^[a-z_0-9]+\$?$", segs[-1]):
                    # a free function moved to another module: its own name, if unique among non-method functions
                    r2 = [f for f in s.find(r"::" + segs[-1], crate, kind) if f.kind == "Fn"]
                if len(r2) == 1:
                    s.relocated = getattr(s, "relocated", [])
                    s.relocated.append((pattern, r2[0].qpath))
                    return r2[0]
        if len(r) != 1:
            raise AnchorMissing("expected exactly one function matching %r, found %d: %s" % (
                pattern, len(r), [f.qpath for f in r][:6]))
        return r[0]

    def adt(s, pattern):
        r = re.compile(pattern)
        out = [a for a in s.adts.values() if r.search(a.qpath)]
        if len(out) != 1:
            raise AnchorMissing("expected exactly one ADT matching %r, found %d" % (pattern, len(out)))
        return out[0]

    def closures_of(s, fn, recursive=True):
        out = []
        for g in s.fns.values():
            if g.parent == fn.uid:
                out.append(g)
                if recursive:
                    out += s.closures_of(g, True)
        return out

    def callers_of(s, pred):
        """yield (fn, call) for every call whose name satisfies pred (a regex string or callable)"""
        if isinstance(pred, str):
            r = re.compile(pred)
            pred = lambda c: bool(r.search(c.name))
        for f in s.fns.values():
            for c in f.calls:
                if pred(c):
                    yield f, c


class AnchorMissing(Exception):
    pass


def _qual(crate, uid, path):
    if uid.startswith(crate + "::") or uid == crate:
        return crate + "::" + path
    return path


def load(dirpath, crates=None, use_cache=True):
    pk = os.path.join(dirpath, "facts-%s.pkl" % ("all" if not crates else "-".join(sorted(crates))))
    if use_cache and os.path.exists(pk):
        try:
            with open(pk, "rb") as fh:
                return pickle.load(fh)
        except Exception:
            pass
    F = Facts()
    for p in sorted(glob.glob(os.path.join(dirpath, "*.facts"))):
        fcrate = os.path.basename(p).rsplit("-", 1)[0]
        if crates and fcrate not in crates:
            continue
        if fcrate.startswith("build_script"):
            continue
        cur = None
        curadt = None
        crate = fcrate
        with open(p) as fh:
            for line in fh:
                line = line.rstrip("\n")
                if line.startswith("  "):
                    parts = line[2:].split("\t")
                    tag = parts[0]
                    if tag == "S":
                        st = Stmt()
                        st.bb = int(parts[1])
                        st.line = int(parts[2])
                        st.lhs = parts[3]
                        st.kind = parts[4]
                        st.ops = parts[5:]
                        st.idx = len(cur.stmts)
                        cur.stmts.append(st)
                    elif tag == "C":
                        c = Call()
                        c.bb = int(parts[1])
                        c.dest = parts[2]
                        c.full = parts[4]
                        g = parts[3].rsplit(" @", 1)
                        c.generic = g[0]
                        c.guid = g[1] if len(g) > 1 else g[0]
                        r = parts[5].rsplit(" @", 1)
                        c.resolved = r[0]
                        c.ruid = r[1] if len(r) > 1 else r[0]
                        c.args = parts[6].split(" | ") if parts[6] else []
                        c.target = int(parts[7])
                        c.unwind = parts[8]
                        c.line = int(parts[9].split("=")[1])
                        c.exp = parts[10].endswith("true")
                        c.fn = cur
                        if c.generic == "INDIRECT":
                            c.name = "INDIRECT"
                        elif c.resolved not in ("=", "?"):
                            c.name = _qual(crate, c.ruid, c.resolved)
                        else:
                            c.name = _qual(crate, c.guid, c.generic)
                        cur.calls.append(c)
                    elif tag == "T":
                        cur.terms[int(parts[1])] = tuple(parts[2:])
                    elif tag == "B":
                        cur.cleanup.add(int(parts[1]))
                    elif tag == "L":
                        cur.locals[parts[1]] = parts[2]
                    elif tag == "FIELD":
                        curadt.fields.append(dict(variant=parts[1], name=parts[2], ty=parts[3], flags=parts[4],
                                                  freeze=parts[5].endswith("true")))
                    elif tag == "VARIANT":
                        curadt.variants.append((parts[1], None if parts[2] == "-" else int(parts[2]), int(parts[3])))
                    continue
                parts = line.split("\t")
                tag = parts[0]
                if tag == "FN":
                    f = Fn()
                    pu = parts[1].rsplit(" @", 1)
                    f.path = pu[0]
                    f.uid = pu[1]
                    f.kind = parts[2]
                    f.span = parts[3]
                    f.parent = parts[4]
                    f.trait = parts[5]
                    f.selfty = parts[6]
                    f.nargs = int(parts[7].split("=")[1])
                    f.crate = crate
                    f.qpath = crate + "::" + f.path
                    F.fns[f.uid] = f
                    cur = f
                elif tag == "ADT":
                    a = Adt()
                    a.path = parts[1]
                    a.qpath = crate + "::" + a.path
                    a.kind = parts[2]
                    a.generics = parts[3].split(",") if parts[3] else []
                    a.span = parts[4]
                    a.freeze = parts[5].endswith("true")
                    a.crate = crate
                    F.adts[a.qpath] = a
                    curadt = a
                elif tag == "IMPL":
                    F.impls.append(dict(crate=crate, path=parts[1], trait=parts[2], selfty=parts[3],
                                        selfadt=parts[4], safety=parts[5],
                                        items=parts[6].split(",") if parts[6] else [], span=parts[7],
                                        preds=parts[8].split(" && ") if len(parts) > 8 and parts[8] else []))
                elif tag == "STATIC":
                    F.statics.append(dict(crate=crate, path=parts[1], ty=parts[2], mut=parts[3],
                                          freeze=parts[4].endswith("true"), span=parts[5]))
                elif tag == "CRATE":
                    crate = parts[1]
                    F.crates[crate] = dict(types=parts[2], nonce=parts[3] if len(parts) > 3 else "", file=p)
    # canonical callee names: prefer the defining crate's own spelling when the body is known
    for f in F.fns.values():
        F.by_qpath[f.qpath].append(f)
        for c in f.calls:
            if c.indirect:
                continue
            t = F.fns.get(c.callee_uid())
            if t is not None:
                c.name = t.qpath
    if use_cache:
        try:
            tmp = pk + ".%d" % os.getpid()
            with open(tmp, "wb") as fh:
                pickle.dump(F, fh, protocol=pickle.HIGHEST_PROTOCOL)
            os.replace(tmp, pk)
        except Exception:
            pass
    return F
