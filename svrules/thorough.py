"""Thorough-tier extras: compile-fail witnesses (engine E3) and checker self-tests on stored mutants."""
import fcntl
import hashlib
import json
import os
import re
import shutil
import subprocess
import tempfile
import time

import extract

VERIF = extract.VERIF
WIT = os.path.join(VERIF, "witness")
CACHE = extract.CACHE


# ------------------------------------------------------------------------------------------------------------
# E3 witnesses: doctests of /verif/witness, `compile_fail,E0xxx` paired with compiling twins


def _run_witnesses():
    """run the witness crate once per source tree; returns {test name: 'ok'|'FAILED'|...} and the raw tail"""
    th, _ = extract.tree_hash("/repo", "core")
    h = hashlib.sha256()
    h.update(th.encode())
    for root, _, files in os.walk(os.path.join(WIT, "src")):
        for fn in sorted(files):
            with open(os.path.join(root, fn), "rb") as fh:
                h.update(fh.read())
    key = h.hexdigest()[:24]
    os.makedirs(os.path.join(CACHE, "witness"), exist_ok=True)
    resf = os.path.join(CACHE, "witness", key + ".json")
    with open(os.path.join(CACHE, "lock-witness"), "w") as lk:
        fcntl.flock(lk, fcntl.LOCK_EX)
        if os.path.exists(resf):
            return json.load(open(resf))
        shutil.copy("/repo/Cargo.lock", os.path.join(WIT, "Cargo.lock"))
        env = dict(os.environ)
        env.update(CARGO_TARGET_DIR=os.path.join(CACHE, "target-witness"), CARGO_NET_OFFLINE="true")
        env.pop("RUSTC_WORKSPACE_WRAPPER", None)
        t0 = time.time()
        p = subprocess.run(["cargo", "+nightly", "test", "--doc", "--offline", "-j", "16"], cwd=WIT, env=env,
                           capture_output=True, text=True)
        out = p.stdout + "\n" + p.stderr
        res = {}
        for m in re.finditer(r"^test (src/lib\.rs - (\S+) \(line \d+\)( - compile fail)?) \.\.\. (\w+)", out, re.M):
            res.setdefault(m.group(2), []).append(dict(test=m.group(1), compile_fail=bool(m.group(3)), status=m.group(4)))
        data = dict(results=res, rc=p.returncode, wall_s=round(time.time() - t0, 1), tail=out[-3000:], key=key)
        if res:
            with open(resf, "w") as fh:
                json.dump(data, fh)
        return data


def witnesses(ctx):
    spec = json.load(open(os.path.join(WIT, "witnesses.json")))
    mine = [w for w in spec["witnesses"] if ctx.prop in w["properties"]]
    if not mine:
        return
    data = _run_witnesses()
    res = data["results"]
    info = []
    for w in mine:
        got = res.get(w["item"], [])
        cf = [g for g in got if g["compile_fail"]]
        tw = [g for g in got if not g["compile_fail"]]
        ok = bool(cf) and all(g["status"] == "ok" for g in cf) and len(cf) >= w.get("compile_fail", 1) and \
            all(g["status"] == "ok" for g in tw) and len(tw) >= w.get("twins", 1)
        info.append(dict(item=w["item"], what=w["what"], compile_fail_tests=len(cf), twins=len(tw), ok=ok))
        ctx.check(ok, "%s.W" % ctx.prop, "witness:" + w["item"],
                  "compile-fail witness holds (violating program rejected with the expected error; its twin compiles): "
                  + w["what"],
                  "witness `%s` no longer holds (%s): %s. rustdoc output tail: %s"
                  % (w["item"], [(g["test"], g["status"]) for g in got] or "no such doctest ran", w["what"],
                     data.get("tail", "")[-400:]))
    ctx.info["witnesses"] = dict(wall_s=data.get("wall_s"), results=info)


# ------------------------------------------------------------------------------------------------------------
# checker self-tests: stored mutants must make the named rule fire


def _scratch_copy():
    d = tempfile.mkdtemp(prefix="svmut.", dir="/var/tmp")
    subprocess.run(["rsync", "-a", "--exclude", "target", "--exclude", ".git", "--exclude", "vscode", "/repo/", d + "/"],
                   check=True)
    return d


def _run_mutant(args):
    """one self-test mutant in its own process: scratch copy, patch, extraction (serialised by the extraction lock),
    the property's rules; returns the result record"""
    prop, m, seed = args
    import importlib
    import run as runner
    d = None
    rec = dict(mutant=m["id"], expect=m["expect"], fired=False, applied=False, violations=[],
               must_be_silent=bool(m.get("must_be_silent")))
    try:
        d = _scratch_copy()
        patch = os.path.join(VERIF, m["patch"])
        args_ = ["patch", "-p1", "-s", "-d", d, "-i", patch]
        if m.get("reverse"):
            args_.insert(1, "-R")
        p = subprocess.run(args_, capture_output=True, text=True)
        if p.returncode != 0:
            rec["note"] = "patch no longer applies (skipped): " + (p.stdout + p.stderr)[-200:]
            return rec
        rec["applied"] = True
        c2 = runner.Ctx(prop, "quick", d, seed)
        mod = importlib.import_module("rules." + prop)
        c2.config = getattr(mod, "QUICK_CONFIG", "core")
        try:
            mod.run(c2)
        except Exception as e:  # a mutant that breaks an anchor also counts as detected (fail closed)
            c2.bad("anchor", "exception:" + type(e).__name__, str(e)[:300])
        keys = [v["full_key"] for v in c2.viol]
        rec["violations"] = keys[:8]
        rec["fired"] = any(any(k.startswith(e) for e in m["expect"]) for k in keys)
        rec["fired_any"] = bool(keys)
        if rec["must_be_silent"]:
            rec["silent"] = not keys
    except Exception as e:
        rec["note"] = "self-test error: %s" % str(e)[:300]
    finally:
        if d:
            shutil.rmtree(d, ignore_errors=True)
    return rec


def selftests(ctx):
    spec = json.load(open(os.path.join(VERIF, "selftest", "mutants.json")))
    mine = [m for m in spec["mutants"] if m["property"] == ctx.prop]
    limit = int(os.environ.get("VERIF_SELFTEST_LIMIT", "0"))  # 0 = all
    if limit:
        mine = mine[:limit]
    workers = max(1, min(int(os.environ.get("VERIF_SELFTEST_JOBS", "6")), len(mine) or 1))
    jobs = [(ctx.prop, m, ctx.seed) for m in mine]
    if workers == 1 or len(jobs) <= 1:
        results = [_run_mutant(j) for j in jobs]
    else:
        # the fact extraction of each mutant is serialised by the extraction lock; the rule evaluation (pure Python,
        # minutes for the call-graph rules) runs in parallel
        import concurrent.futures
        import multiprocessing
        with concurrent.futures.ProcessPoolExecutor(max_workers=workers,
                                                    mp_context=multiprocessing.get_context("fork")) as ex:
            results = list(ex.map(_run_mutant, jobs))
    ctx.selftests.extend(results)
    ctx.info["selftest_summary"] = dict(mutants=len(results), applied=sum(1 for r in results if r["applied"]),
                                        fired_expected_rule=sum(1 for r in results if r["fired"]),
                                        expected_undetected=sum(1 for r in results if r["applied"] and not r["fired"]
                                                                and not r["expect"] and not r["must_be_silent"]),
                                        refactors_silent=sum(1 for r in results if r.get("silent")),
                                        refactors_false_alarm=sum(1 for r in results if r["must_be_silent"]
                                                                  and r["applied"] and not r.get("silent", False)))
