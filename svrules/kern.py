"""Reusable analysis kernels over svfacts facts (K1..K11 of DESIGN.md)."""
import collections
import re

from facts import LOCAL_RE, AnchorMissing

# ------------------------------------------------------------------------------------------
# call graph

VALUE_TRAITS = ("StarlarkValue", "AValue", "ValueLike", "Trace", "FreezeBranded", "Freeze", "TypeMatcher", "DictLike", "SetLike", "ListLike",
                "TypeMatcherDyn", "TyCustomImpl", "TyCustomDyn")

TRAMPOLINE_RE = re.compile(r"^starlark::values::layout::vtable::AValueDyn(Full)?::<'v>::(\w+)$")


def _trait_base(tr):
    return re.sub(r"<.*", "", tr).split("::")[-1]


class CallGraph:
    """Context-insensitive call graph keyed by function uid.

    edges: direct/resolved calls, closure construction, fn items taken as values, unresolved trait-method
    calls -> every impl of that method (all traits when expand='full', value traits only when 'value'),
    vtable trampolines AValueDyn::<op> -> every StarlarkValue/AValue impl of <op>.
    """

    def __init__(s, F, expand="full"):
        s.F = F
        s.expand = expand
        if isinstance(expand, (set, frozenset, list, tuple)):
            traits = set(VALUE_TRAITS) | set(expand)
            expand = "value"
        else:
            traits = set(VALUE_TRAITS)
        s.timpl = collections.defaultdict(list)  # (trait base, method) -> [uid]
        s.tdefault = {}  # (trait base, method) -> uid
        for k, f in F.fns.items():
            if f.kind == "Closure":
                continue
            if f.trait.startswith("TRAITDEFAULT"):
                s.tdefault[(f.trait.split()[1].split("::")[-1], f.name)] = k
            elif f.trait != "-":
                s.timpl[(_trait_base(f.trait), f.name)].append(k)
        s.G = collections.defaultdict(set)
        s.trampolines = {}
        s.edges = 0
        s.unmodelled_indirect = []
        for k, f in F.fns.items():
            g = s.G[k]
            for c in f.calls:
                if c.indirect:
                    m = TRAMPOLINE_RE.match(f.qpath)
                    if m:
                        op = m.group(2)
                        s.trampolines[op] = k
                        for tb in ("StarlarkValue", "AValue"):
                            g.update(s.timpl.get((tb, op), ()))
                            d = s.tdefault.get((tb, op))
                            if d:
                                g.add(d)
                    else:
                        s.unmodelled_indirect.append((k, c.line))
                    continue
                u = c.callee_uid()
                if u in F.fns:
                    g.add(u)
                    tgt = F.fns[u]
                    if c.resolved == "?" and tgt.trait.startswith("TRAITDEFAULT"):
                        tb = tgt.trait.split()[1].split("::")[-1]
                        if expand == "full" or tb in traits:
                            g.update(s.timpl.get((tb, tgt.name), ()))
                elif c.resolved == "?":
                    segs = c.generic.split("::")
                    if len(segs) >= 2:
                        tb = re.sub(r"<.*", "", segs[-2])
                        if expand == "full" or tb in traits:
                            g.update(s.timpl.get((tb, segs[-1]), ()))
                for a in c.args:
                    if "constfn" in a:
                        for m in re.finditer(r"constfn .*? @(\S+)", a):
                            if m.group(1) in F.fns:
                                g.add(m.group(1))
            for st in f.stmts:
                if st.kind.startswith("agg closure "):
                    cu = st.kind.rsplit(" @", 1)[1]
                    if cu in F.fns:
                        g.add(cu)
                for a in st.ops:
                    if "constfn" in a:
                        for m in re.finditer(r"constfn .*? @(\S+)", a):
                            if m.group(1) in F.fns:
                                g.add(m.group(1))
        s.edges = sum(len(v) for v in s.G.values())
        s._rev = None

    def rev(s):
        if s._rev is None:
            r = collections.defaultdict(set)
            for a, bs in s.G.items():
                for b in bs:
                    r[b].add(a)
            s._rev = r
        return s._rev

    def reach(s, starts, avoid=frozenset()):
        seen = set()
        st = list(starts)
        while st:
            n = st.pop()
            if n in seen or n in avoid:
                continue
            seen.add(n)
            st.extend(s.G.get(n, ()))
        return seen

    def path(s, start, sinks, avoid=frozenset()):
        """shortest path start -> any sink as list of uids, or None"""
        sinks = set(sinks)
        prev = {start: None}
        dq = collections.deque([start])
        while dq:
            n = dq.popleft()
            if n in sinks and n != start or (n in sinks and prev[n] is None and n == start and False):
                out = []
                while n is not None:
                    out.append(n)
                    n = prev[n]
                return out[::-1]
            for m in s.G.get(n, ()):
                if m not in prev and m not in avoid:
                    prev[m] = n
                    dq.append(m)
        return None

    def names(s, uids):
        return [s.F.fns[u].qpath if u in s.F.fns else u for u in uids]


# ------------------------------------------------------------------------------------------
# call-site helpers


def calls(fn, pattern):
    r = re.compile(pattern)
    return [c for c in fn.calls if r.search(c.name) or r.search(c.full)]


def calls_by_name(fn, pattern):
    r = re.compile(pattern)
    return [c for c in fn.calls if r.search(c.name)]


def callers(F, pattern, exclude_test=True):
    """[(fn, call)] over all bodies for calls whose canonical name matches pattern"""
    r = re.compile(pattern)
    out = []
    for f in F.fns.values():
        for c in f.calls:
            if not c.indirect and r.search(c.name):
                out.append((f, c))
    return out


def top_fn(F, fn):
    """enclosing non-closure function"""
    while fn.kind == "Closure" and fn.parent in F.fns:
        fn = F.fns[fn.parent]
    return fn


def aggregates(fn, pattern):
    r = re.compile(pattern)
    return [st for st in fn.stmts if st.kind.startswith("agg ") and r.search(st.kind)]


def all_aggregates(F, pattern):
    r = re.compile(pattern)
    out = []
    for f in F.fns.values():
        for st in f.stmts:
            if st.kind.startswith("agg ") and r.search(st.kind):
                out.append((f, st))
    return out


# ------------------------------------------------------------------------------------------
# intra-procedural dataflow (flow-insensitive def-use over MIR locals)

STD_DISCR = {
    "Option": {0: "None", 1: "Some"},
    "Result": {0: "Ok", 1: "Err"},
    "ControlFlow": {0: "Continue", 1: "Break"},
}

PASS_CALLS = re.compile(
    r"(Try>::branch$|::unwrap$|::expect$|Deref>::deref$|DerefMut>::deref_mut$|From<.*>>::from$|Into<.*>>::into$|TryInto<.*>>::try_into$|TryFrom<.*>>::try_from$|"
    r"::as_ref$|::as_mut$|::clone$|::dupe$|::to_owned$|::map_err$|FromResidual|::unwrap_unchecked$|::ok$|"
    r"::copied$|::cloned$|::borrow$|::borrow_mut$|::into_inner$|::as_deref$|::as_deref_mut$|::ok_or$|::ok_or_else$)")


def defs_of(fn):
    d = collections.defaultdict(list)
    for st in fn.stmts:
        d[st.lhs_local].append(st)
    cd = collections.defaultdict(list)
    for c in fn.calls:
        cd[c.dest_local].append(c)
    return d, cd


def locals_in(text):
    return ["_" + m for m in LOCAL_RE.findall(text)]


def origins(fn, operand, pass_calls=PASS_CALLS, depth=40, through_all_args=False):
    """Backward slice from an operand/place string to its sources.

    Returns a set of tuples: ('param', local) / ('call', Call) / ('const', text) / ('agg', Stmt) / ('unknown', l).
    Calls matching pass_calls are looked through (first argument, or all arguments)."""
    m = LOCAL_RE.search(operand)
    if not m:
        return {("const", operand)}
    defs, cdefs = defs_of(fn)
    work = [("_" + m.group(1), 0)]
    seen = set()
    out = set()
    while work:
        l, d = work.pop()
        if l in seen:
            continue
        seen.add(l)
        if d > depth:
            out.add(("unknown", l))
            continue
        n = int(l[1:])
        ds = defs.get(l, [])
        cs = cdefs.get(l, [])
        if not ds and not cs:
            out.add(("param", l) if 0 < n <= fn.nargs else ("unknown", l))
            continue
        if 0 < n <= fn.nargs:
            out.add(("param", l))
        for c in cs:
            if pass_calls is not None and pass_calls.search(c.name) and c.args:
                srcs = c.args if through_all_args else c.args[:1]
                got = False
                for a in srcs:
                    for x in locals_in(a):
                        work.append((x, d + 1))
                        got = True
                if got:
                    continue
            out.add(("call", c))
        for st in ds:
            if st.kind.startswith("agg "):
                out.add(("agg", st))
                continue
            srcs = locals_in(st.text())
            if not srcs:
                out.add(("const", st.text()))
            for x in srcs:
                work.append((x, d + 1))
    return out


def forward_locals(fn, start_locals, pass_calls=PASS_CALLS, through_all_calls=False):
    """Forward taint: set of locals that (may) hold a value derived from start_locals."""
    tainted = set(start_locals)
    changed = True
    while changed:
        changed = False
        for st in fn.stmts:
            if st.lhs_local in tainted:
                continue
            if any(x in tainted for x in locals_in(st.text())):
                tainted.add(st.lhs_local)
                changed = True
        for c in fn.calls:
            if c.dest_local in tainted:
                continue
            if through_all_calls or (pass_calls is not None and pass_calls.search(c.name)):
                if any(x in tainted for a in c.args for x in locals_in(a)):
                    tainted.add(c.dest_local)
                    changed = True
    return tainted


def switch_info(fn, bb):
    """Describe the switch terminating bb: dict(kind, place, ty, targets{val:bb}, otherwise, names{val:name})"""
    sw = fn.switch(bb)
    if not sw:
        return None
    op, tg, other = sw
    loc = locals_in(op)
    info = dict(bb=bb, operand=op, targets=tg, otherwise=other, kind="int", place=None, ty=None, names={})
    if not loc:
        return info
    l = loc[0]
    # find the defining statement of the switch operand, preferring the same block
    cands = [st for st in fn.stmts if st.lhs == l]
    same = [st for st in cands if st.bb == bb]
    st = (same or cands or [None])[-1]
    if st is not None and st.kind == "discr":
        info["kind"] = "enum"
        info["place"] = st.ops[0]
        info["ty"] = st.ops[1]
    else:
        t = fn.locals.get(l, "")
        if t == "bool":
            info["kind"] = "bool"
            info["place"] = l
            info["names"] = {0: "false"}
    return info


def enum_variant_names(F, ty):
    """discriminant -> variant name for a type string"""
    base = re.sub(r"<.*", "", ty.lstrip("&").replace("mut ", "").strip())
    short = base.split("::")[-1]
    if short in STD_DISCR and base.startswith(("std::", "core::")):
        return dict(STD_DISCR[short])
    for q, a in F.adts.items():
        if a.path == base or q == base or q.endswith("::" + base):
            return {d: n for n, d, i in a.variants if d is not None}
    return {}


def branch_edges(F, fn, src_locals, want, via_calls=PASS_CALLS):
    """CFG edges taken when a value derived from src_locals has outcome `want`.

    want: variant name ('Ok','Some','Continue','None','Err','Break', or a local enum variant) or 'true'/'false'.
    Returns (edges, switches) where edges = {(bb, target)} and switches = the switch infos used."""
    tainted = forward_locals(fn, src_locals, pass_calls=via_calls)
    edges = set()
    used = []
    for bb in fn.terms:
        info = switch_info(fn, bb)
        if not info:
            continue
        if info["kind"] == "enum":
            pl = locals_in(info["place"])
            if not pl or pl[0] not in tainted:
                continue
            names = enum_variant_names(F, info["ty"])
            hit = False
            listed = set()
            for v, t in info["targets"].items():
                listed.add(names.get(v))
                if names.get(v) == want:
                    edges.add((bb, t))
                    hit = True
            if not hit and want in names.values() and want not in listed:
                edges.add((bb, info["otherwise"]))
                hit = True
            if hit:
                used.append(info)
        elif info["kind"] == "bool" and want in ("true", "false"):
            if info["place"] not in tainted:
                continue
            if want == "false":
                if 0 in info["targets"]:
                    edges.add((bb, info["targets"][0]))
                    used.append(info)
            else:
                edges.add((bb, info["otherwise"]))
                used.append(info)
    return edges, used


def bool_call_edges(F, fn, call, want="true"):
    """edges for the switch on the boolean result of `call` (possibly through Not / copies)"""
    # track negations: dest -> Not -> ...
    neg = {call.dest_local: False}
    changed = True
    while changed:
        changed = False
        for st in fn.stmts:
            if st.lhs_local in neg:
                continue
            srcs = locals_in(st.text())
            if len(srcs) >= 1 and srcs[0] in neg and st.kind in ("use",) :
                neg[st.lhs_local] = neg[srcs[0]]
                changed = True
            elif srcs and srcs[0] in neg and st.kind.startswith("unop Not"):
                neg[st.lhs_local] = not neg[srcs[0]]
                changed = True
    edges = set()
    for bb in fn.terms:
        info = switch_info(fn, bb)
        if not info or info["kind"] != "bool" or info["place"] not in neg:
            continue
        n = neg[info["place"]]
        w = (want == "true") != n  # the truth value of the switched local we want
        if w:
            edges.add((bb, info["otherwise"]))
        elif 0 in info["targets"]:
            edges.add((bb, info["targets"][0]))
    return edges


def guarded_by_edges(fn, edges, bb):
    """True when every normal path entry -> bb crosses one of `edges` (edges of one switch count together)"""
    if not edges:
        return False
    # cut all *other* out-edges of the switches in question
    cut = set()
    for (b, t) in edges:
        for n in fn.succs(b):
            if (b, n) not in edges:
                cut.add((b, n))
    # bb must be unreachable when the wanted edges are removed ...
    if bb in fn.reach(0, cut_edges=set(edges)):
        return False
    return True


# ------------------------------------------------------------------------------------------
# must-call summaries (K2 wrapper rule)


def must_call_summary(F, pattern, max_iter=20):
    """uids of functions all of whose normal paths from entry to return call something matching `pattern`
    (directly or through another summarised function)."""
    r = re.compile(pattern)
    summ = set()
    cand = {}
    for k, f in F.fns.items():
        if f.calls:
            cand[k] = f
    for _ in range(max_iter):
        added = False
        for k, f in cand.items():
            if k in summ:
                continue
            through = [c.bb for c in f.calls if (not c.indirect) and (r.search(c.name) or c.callee_uid() in summ)]
            if not through:
                continue
            rets = f.returns()
            # error exits (`return Err(..)`, `?`) do not count: a wrapper has to do its job on the paths that succeed
            err_exits = [st.bb for st in f.stmts if st.kind == "agg adt std::result::Result::Err"] + [
                c.bb for c in f.calls if c.name.endswith("from_residual")]
            if rets and f.must_pass_from_entry(through + err_exits, rets):
                summ.add(k)
                added = True
        if not added:
            break
    return summ


def field_reads(fn, adt_path):
    """names of fields of ADT `adt_path` (def_path_str spelling as printed inside places) that the body mentions"""
    pat = re.compile(r"\{" + re.escape(adt_path) + r"::(\w+)\}")
    out = set()
    for st in fn.stmts:
        for t in [st.lhs] + st.ops:
            out.update(pat.findall(t))
    for c in fn.calls:
        for t in [c.dest] + c.args:
            out.update(pat.findall(t))
    for t in fn.terms.values():
        for x in t:
            out.update(pat.findall(x))
    return out


_TESTS = {"is_some": ("Some", "None"), "is_none": ("None", "Some"), "is_ok": ("Ok", "Err"), "is_err": ("Err", "Ok")}


def outcome_edges(F, fn, call, want):
    """CFG edges on which the Option/Result/ControlFlow/bool result of `call` has outcome `want`, through
    discriminant switches (match / `?` / if let) and through is_some/is_none/is_ok/is_err tests."""
    edges, _ = branch_edges(F, fn, [call.dest_local], want)
    edges = set(edges)
    tainted = forward_locals(fn, [call.dest_local])
    for c in fn.calls:
        m = re.search(r"::(is_some|is_none|is_ok|is_err)$", c.name)
        if not m or not c.args:
            continue
        if not any(x in tainted for x in locals_in(c.args[0])):
            continue
        t, f_ = _TESTS[m.group(1)]
        if want == t:
            edges |= bool_call_edges(F, fn, c, "true")
        elif want == f_:
            edges |= bool_call_edges(F, fn, c, "false")
    return edges


def all_paths_pass(fn, start_blocks, through_blocks):
    """every normal path from any start block to a return passes a block in through_blocks"""
    r = fn.reach(list(start_blocks), cut_blocks=set(through_blocks))
    return not (set(fn.returns()) & r)


# ------------------------------------------------------------------------------------------
# K3 field coverage

def _aliases_of(fn, base):
    """locals that hold `base` itself or a (re)borrow of the whole `*base` (no field projection)"""
    al = {base}
    changed = True
    while changed:
        changed = False
        for st in fn.stmts:
            if st.lhs in al or "." in st.lhs:
                continue
            if st.kind in ("use", "ref", "refmut") or st.kind.startswith("cast") or st.kind.startswith("rawptr"):
                src = st.ops[0]
                src = re.sub(r"^(move|copy) ", "", src)
                root = src.split(".", 1)[0]
                rest = src[len(root):]
                if root in al and re.fullmatch(r"(\.\*)*", rest):
                    al.add(st.lhs)
                    changed = True
        for c in fn.calls:
            # deref/as_ref style pass-through keeps aliasing the whole object
            if c.dest in al or not c.args:
                continue
            if re.search(r"(Deref>::deref|DerefMut>::deref_mut|::as_ref|::as_mut|BorrowMut>::borrow_mut|Borrow>::borrow)$",
                         c.name):
                a0 = re.sub(r"^(move|copy) ", "", c.args[0])
                if a0 in al:
                    al.add(c.dest)
                    changed = True
    return al


def field_reads_of(F, fn, adt_path, base="_1", depth=3, _seen=None):
    """set of keys 'field' / 'Variant.field' of ADT `adt_path` touched through `base` in fn, its closures and
    (to `depth`) callees that receive the whole object."""
    if _seen is None:
        _seen = set()
    if (fn.uid, base) in _seen:
        return set()
    _seen.add((fn.uid, base))
    out = set()
    pat = re.compile(r"(?:as<(\w+)>\.)?\{" + re.escape(adt_path) + r"::(\w+)\}")
    texts = []
    bodies = [fn] + F.closures_of(fn)
    for g in bodies:
        for st in g.stmts:
            texts.append(st.lhs)
            texts.extend(st.ops)
        for c in g.calls:
            texts.append(c.dest)
            texts.extend(c.args)
        for t in g.terms.values():
            texts.extend(t)
    for t in texts:
        for m in pat.finditer(t):
            out.add(m.group(2))
            if m.group(1):
                out.add(m.group(1) + "." + m.group(2))
    if depth > 0:
        al = _aliases_of(fn, base)
        for c in fn.calls:
            if c.indirect:
                continue
            for i, a in enumerate(c.args):
                a0 = re.sub(r"^(move|copy) ", "", a)
                if a0 in al:
                    callee = F.fns.get(c.callee_uid())
                    if callee is not None:
                        out |= field_reads_of(F, callee, adt_path, "_%d" % (i + 1), depth - 1, _seen)
    return out


_VALUE_LEAF_EXEMPT = re.compile(
    r"^(std::marker::PhantomData<|(starlark::)?values::layout::value::FrozenValue$|"
    r"(starlark::)?values::layout::typed::FrozenValueTyped<|(starlark::)?values::types::any::FrozenAnyValue<|"
    r"(starlark::)?values::types::any::AtomicFrozenAnyValueOption|"
    r"(starlark::)?values::layout::typed::string::FrozenStringValue|"
    r"(starlark::)?values::layout::heap::heap_type::(FrozenHeap|FrozenHeapRef|FrozenFrozenHeap)$)")


_FNSIG = re.compile(r"(?<![A-Za-z_0-9])(Fn|FnMut|FnOnce|fn)\(")


def strip_fn_sigs(ty):
    """remove the parameter lists and return types of fn / Fn* signatures: nothing of those types is stored"""
    if "Fn(" not in ty and "FnMut(" not in ty and "FnOnce(" not in ty and "fn(" not in ty:
        return ty
    out = []
    i = 0
    n = len(ty)
    while i < n:
        m = _FNSIG.match(ty, i)
        if not m:
            out.append(ty[i])
            i += 1
            continue
        out.append(m.group(1))
        j = m.end()
        depth = 1
        while j < n and depth:
            if ty[j] in "([<":
                depth += 1
            elif ty[j] in ")]>":
                depth -= 1
            j += 1
        if ty.startswith(" -> ", j):
            j += 4
            depth = 0
            while j < n:
                ch = ty[j]
                if ch in "([<":
                    depth += 1
                elif ch in ")]>":
                    if depth == 0:
                        break
                    depth -= 1
                elif ch in ",+" and depth == 0:
                    break
                j += 1
        i = j
    return "".join(out)


class ValueBearing:
    """Does a type (string) structurally contain an unfrozen Value<'v>?"""

    def __init__(s, F):
        s.F = F
        s.by = {}
        for a in F.adts.values():
            s.by[(a.crate, a.path)] = a
            s.by[(None, a.qpath)] = a
        s.memo = {}

    def adt_for(s, crate, p):
        return s.by.get((crate, p)) or s.by.get((None, p))

    def ty(s, ty, crate, traced_params=(), seen=()):
        if _VALUE_LEAF_EXEMPT.search(ty):
            return False
        ty = strip_fn_sigs(ty)
        if re.search(r"(?<![A-Za-z_])Value<'", ty) or re.search(r"(?<![A-Za-z_])ValueTyped<'", ty) \
                or re.search(r"(?<![A-Za-z_])ValueOf\w*<'", ty) or re.search(r"(?<![A-Za-z_])StringValue<'", ty) \
                or re.search(r"(?<![A-Za-z_])ValueOfUnchecked<'", ty):
            return True
        for t in traced_params:
            if re.search(r"(?<![A-Za-z_:0-9])%s(?![A-Za-z_0-9])" % re.escape(t), ty):
                return True
        for m in re.finditer(r"([A-Za-z_][A-Za-z0-9_]*(?:::[A-Za-z_][A-Za-z0-9_]*)+)", ty):
            p = m.group(1)
            a = s.adt_for(crate, p)
            if a is not None and a.qpath not in seen:
                if s.adt(a, seen + (a.qpath,)):
                    return True
        return False

    def adt(s, a, seen=()):
        if a.qpath in s.memo:
            return s.memo[a.qpath]
        s.memo[a.qpath] = False
        r = any(s.ty(fd["ty"], a.crate, (), seen) for fd in a.fields)
        s.memo[a.qpath] = r
        return r


# ------------------------------------------------------------------------------------------
# registry of native functions / methods (#[starlark_module])

class Native:
    __slots__ = ("name", "kind", "builder", "outer", "impl", "speculative", "line")

    def __repr__(s):
        return "Native(%s %s spec=%s)" % (s.kind, s.name, s.speculative)


def _chase_const(fn, operand, depth=8):
    """follow use/ref chains from an operand to a constant text"""
    l = locals_in(operand)
    if not l:
        return operand
    l = l[0]
    for _ in range(depth):
        ds = [st for st in fn.stmts if st.lhs == l]
        if not ds:
            return None
        st = ds[0]
        if st.kind in ("use", "ref", "refmut") or st.kind.startswith("cast"):
            t = st.ops[0]
            if t.startswith("const"):
                return t
            nl = locals_in(t)
            if not nl:
                return t
            l = nl[0]
        else:
            return st.kind + " " + st.text()
    return None


def natives(F):
    """every GlobalsBuilder::set_function / MethodsBuilder::set_method registration with its resolved bodies"""
    out = []
    for f in F.fns.values():
        regs = [c for c in f.calls if re.search(r"(GlobalsBuilder::set_function|MethodsBuilder::set_method|"
                                                r"MethodsBuilder::set_attribute_fn|GlobalsBuilder::set_function_with_ty)$",
                                                c.name)]
        if not regs:
            continue
        comp = {}
        for st in f.stmts:
            if st.kind.endswith("NativeCallableComponents::NativeCallableComponents"):
                comp[st.lhs] = st.ops[0].split(" | ")[0]
        for c in regs:
            n = Native()
            n.builder = f
            n.line = c.line
            n.kind = "method" if "MethodsBuilder" in c.name else "function"
            nm = _chase_const(f, c.args[1]) if len(c.args) > 1 else None
            m = re.match(r'conststr "(.*)"$', nm or "")
            n.name = m.group(1) if m else (nm or "?")
            n.speculative = None
            for a in c.args:
                a0 = re.sub(r"^(move|copy) ", "", a)
                if a0 in comp:
                    n.speculative = "0x01" in comp[a0]
            n.outer = None
            for a in c.args[::-1]:
                t = _chase_const(f, a) or ""
                m = re.search(r"constfn .*? @(\S+)", t)
                if m:
                    n.outer = F.fns.get(m.group(1))
                    break
            n.impl = None
            if n.outer is not None:
                for oc in n.outer.calls:
                    if oc.name.endswith("__starlark_invoke_impl") or "__starlark_invoke_impl" in oc.callee_uid():
                        n.impl = F.fns.get(oc.callee_uid())
            out.append(n)
    return out


_MUT_CELL_CALLS = re.compile(
    r"(cell::Cell::<T>::(set|replace|take|swap|get_mut|as_ptr)|cell::RefCell::<T>::(borrow_mut|try_borrow_mut|get_mut|replace|as_ptr|replace_with)|"
    r"cell::UnsafeCell::<T>::(get|get_mut|raw_get)|cell::OnceCell::<T>::(get_mut|take)|"
    r"fast_cell::FastCell::<T>::(set|take|get_mut|borrow_mut)|std::mem::(replace|swap|take))$")


def field_mut_access_of(F, fn, adt_path, base="_1", depth=3, _seen=None):
    """fields of `adt_path` that the body accesses *mutably* through `base`: assignment into the field, a mutable
    borrow / raw mut pointer of (a place inside) the field, or a shared borrow of the field handed to an
    interior-mutability writer (Cell::set, RefCell::borrow_mut, ...); recursively through callees that receive the
    whole object. Keys as in field_reads_of."""
    if _seen is None:
        _seen = set()
    if (fn.uid, base) in _seen:
        return set()
    _seen.add((fn.uid, base))
    out = set()
    pat = re.compile(r"(?:as<(\w+)>\.)?\{" + re.escape(adt_path) + r"::(\w+)\}")

    def keys(text):
        ks = set()
        for m in pat.finditer(text):
            ks.add(m.group(2))
            if m.group(1):
                ks.add(m.group(1) + "." + m.group(2))
        return ks

    bodies = [fn] + F.closures_of(fn)
    for g in bodies:
        shared = {}  # local -> field keys it shares-borrows
        for st in g.stmts:
            if pat.search(st.lhs):
                out |= keys(st.lhs)
            if st.kind == "refmut" or st.kind.startswith("rawptr Mut"):
                out |= keys(st.ops[0])
            elif st.kind == "ref" or st.kind.startswith("rawptr"):
                k = keys(st.ops[0])
                if k:
                    shared.setdefault(st.lhs, set()).update(k)
        # propagate shared borrows through copies
        changed = True
        while changed:
            changed = False
            for st in g.stmts:
                if st.kind == "use" and st.lhs not in shared:
                    src = re.sub(r"^(move|copy) ", "", st.ops[0])
                    if src in shared:
                        shared[st.lhs] = set(shared[src])
                        changed = True
        for c in g.calls:
            if c.indirect or not c.args:
                continue
            if _MUT_CELL_CALLS.search(c.name):
                a0 = re.sub(r"^(move|copy) ", "", c.args[0])
                if a0 in shared:
                    out |= shared[a0]
                out |= keys(c.args[0])
    if depth > 0:
        al = _aliases_of(fn, base)
        for c in fn.calls:
            if c.indirect:
                continue
            for i, a in enumerate(c.args):
                a0 = re.sub(r"^(move|copy) ", "", a)
                if a0 in al:
                    callee = F.fns.get(c.callee_uid())
                    if callee is not None:
                        out |= field_mut_access_of(F, callee, adt_path, "_%d" % (i + 1), depth - 1, _seen)
    return out


def short_fn(qpath):
    """readable, line-free key for a function: generic arguments removed, crate/module prefix trimmed"""
    def strip(x):
        prev = None
        while prev != x:
            prev = x
            x = re.sub(r"(::)?<[^<>]*>", "", x)
        return x
    m = re.match(r"^(?:\w+::)?<(.+) as (.+?)>::(\w+)(.*)$", qpath)
    if m:
        ty = strip(m.group(1)).split("::")[-1]
        tr = strip(m.group(2)).split("::")[-1]
        return "%s as %s::%s%s" % (ty, tr, m.group(3), m.group(4))
    s = re.sub(r"<impl ([^<>]|<[^<>]*>)*?(\w+)(<[^<>]*>)?>", lambda m_: m_.group(2), qpath)
    s = strip(s)
    parts = s.split("::")
    return "::".join(parts[-2:]) if len(parts) > 2 else s


# ------------------------------------------------------------------------------------------
# K9 table extraction from a `match` on an enum

def match_arms(F, fn, ty_regex, start=0):
    """Find the (first, in CFG order from `start`) switch on the discriminant of a place whose type matches ty_regex.
    Returns (bb, {variant_name: target_bb}, otherwise_bb, all_variant_names) or None."""
    order = []
    seen = set()
    st = [start]
    while st:
        b = st.pop(0)
        if b in seen or b in fn.cleanup:
            continue
        seen.add(b)
        order.append(b)
        st.extend(fn.succs(b))
    r = re.compile(ty_regex)
    for b in order:
        info = switch_info(fn, b)
        if not info or info["kind"] != "enum" or not r.search(info["ty"]):
            continue
        names = enum_variant_names(F, info["ty"])
        arms = {}
        for v, t in info["targets"].items():
            arms[names.get(v, "#%d" % v)] = t
        return b, arms, info["otherwise"], set(names.values())
    return None


def arm_constant(fn, block, stop_blocks=()):
    """If every path from `block` to return is call-free and assigns only one constant to _0, return that constant
    text; else None."""
    reach = fn.reach([block], cut_blocks=set(stop_blocks))
    consts = set()
    for b in reach:
        if fn.call_at(b) is not None:
            return None
    for st in fn.stmts:
        if st.bb in reach and st.lhs == "_0":
            if st.kind == "use" and st.ops[0].startswith("const"):
                consts.add(st.ops[0])
            elif st.kind.startswith("agg "):
                consts.add(st.kind + " " + st.text())
            else:
                return None
    if len(consts) == 1:
        return consts.pop()
    return None


def enum_values(F, fn, operand, adt):
    """possible values of a fieldless-enum operand: variant names, 'param:<local>' or 'other'"""
    names = {d: n for n, d, i in adt.variants}
    out = set()
    for o in origins(fn, operand, pass_calls=None):
        if o[0] == "agg" and (adt.path + "::") in o[1].kind:
            out.add(o[1].kind.rsplit("::", 1)[-1])
        elif o[0] == "const":
            m = re.search(r"Scalar\(0x0*([0-9a-f]+)\)", o[1])
            out.add(names.get(int(m.group(1), 16), "other") if m else "other")
        elif o[0] == "param":
            out.add("param:" + o[1])
        else:
            out.add("other")
    return out


def bool_local_edges(fn, local, want="true"):
    """edges on which the boolean held in `local` (tracked through copies and `!`) has the wanted truth value"""
    neg = {local: False}
    changed = True
    while changed:
        changed = False
        for st in fn.stmts:
            if st.lhs_local in neg or "." in st.lhs:
                continue
            srcs = locals_in(st.text())
            if not srcs or srcs[0] not in neg:
                continue
            if st.kind == "use":
                neg[st.lhs_local] = neg[srcs[0]]
                changed = True
            elif st.kind.startswith("unop Not"):
                neg[st.lhs_local] = not neg[srcs[0]]
                changed = True
        for c in fn.calls:
            if c.dest_local in neg or not c.args:
                continue
            if re.search(r"(intrinsics|hint)::(un)?likely$", c.name):
                a0 = locals_in(c.args[0])
                if a0 and a0[0] in neg:
                    neg[c.dest_local] = neg[a0[0]]
                    changed = True
    edges = set()
    for bb in fn.terms:
        info = switch_info(fn, bb)
        if not info or info["kind"] != "bool" or info["place"] not in neg:
            continue
        w = (want == "true") != neg[info["place"]]
        if w:
            edges.add((bb, info["otherwise"]))
        elif 0 in info["targets"]:
            edges.add((bb, info["targets"][0]))
    return edges


def _field_taint(F, g, adt_path, base, depth, pat):
    """local -> set of field keys of `adt_path` (reached through `base`) that the local's value derives from"""
    def keys(text):
        ks = set()
        for m in pat.finditer(text):
            ks.add(m.group(2))
            if m.group(1):
                ks.add(m.group(1) + "." + m.group(2))
        return ks
    al = _aliases_of(g, base) if base else set()
    taint = {}
    changed = True
    rounds = 0
    while changed and rounds < 50:
        rounds += 1
        changed = False
        for st in g.stmts:
            ks = set()
            for t in st.ops:
                ks |= keys(t)
                for l in locals_in(t):
                    ks |= taint.get(l, set())
            if ks and not ks <= taint.get(st.lhs_local, set()):
                taint.setdefault(st.lhs_local, set()).update(ks)
                changed = True
        for c in g.calls:
            ks = set()
            for i, a in enumerate(c.args):
                ks |= keys(a)
                for l in locals_in(a):
                    ks |= taint.get(l, set())
                # an accessor that receives the whole object and returns (a reference into) one of its fields
                a0 = re.sub(r"^(move|copy) ", "", a)
                if depth > 0 and a0 in al and not c.indirect:
                    callee = F.fns.get(c.callee_uid())
                    if callee is not None and callee.uid != g.uid:
                        ct = _field_taint(F, callee, adt_path, "_%d" % (i + 1), depth - 1, pat)
                        ks |= ct.get("_0", set())
            if ks and not ks <= taint.get(c.dest_local, set()):
                taint.setdefault(c.dest_local, set()).update(ks)
                changed = True
    return taint


def field_uses_of(F, fn, adt_path, base="_1", depth=3, _seen=None):
    """Fields of `adt_path` whose storage (a place through `base` containing the field) flows into an argument of
    some call in fn (or its closures), directly or through ref/copy chains and through accessor methods that return a
    reference into the object; recursively through callees that receive the whole object. Unlike field_reads_of, a
    field that is only *bound* (e.g. by a destructuring pattern) and never handed to anything does not count."""
    if _seen is None:
        _seen = set()
    if (fn.uid, base) in _seen:
        return set()
    _seen.add((fn.uid, base))
    out = set()
    pat = re.compile(r"(?:as<(\w+)>\.)?\{" + re.escape(adt_path) + r"::(\w+)\}")

    def keys(text):
        ks = set()
        for m in pat.finditer(text):
            ks.add(m.group(2))
            if m.group(1):
                ks.add(m.group(1) + "." + m.group(2))
        return ks

    for g in [fn] + F.closures_of(fn):
        taint = _field_taint(F, g, adt_path, base if g is fn else None, depth, pat)
        for c in g.calls:
            if c.bb in g.cleanup:
                continue
            for a in c.args:
                out |= keys(a)
                for l in locals_in(a):
                    out |= taint.get(l, set())
    if depth > 0:
        al = _aliases_of(fn, base)
        for c in fn.calls:
            if c.indirect:
                continue
            for i, a in enumerate(c.args):
                a0 = re.sub(r"^(move|copy) ", "", a)
                if a0 in al:
                    callee = F.fns.get(c.callee_uid())
                    if callee is not None:
                        out |= field_uses_of(F, callee, adt_path, "_%d" % (i + 1), depth - 1, _seen)
    return out


_SUMM_CACHE = {}


def calls_to(F, fn, pattern):
    """calls in fn whose callee matches `pattern`, or whose callee is a wrapper that calls such a function on every
    one of its normal paths (Min et al.'s wrapper rule): extracting `self.call_stack.pop()` into a helper keeps the
    rule satisfied"""
    key = (id(F), pattern)
    if key not in _SUMM_CACHE:
        _SUMM_CACHE[key] = must_call_summary(F, pattern)
    summ = _SUMM_CACHE[key]
    r = re.compile(pattern)
    return [c for c in fn.calls if not c.indirect and (r.search(c.name) or c.callee_uid() in summ)]


def unexpected_callers(F, pattern, allowed, depth=3):
    """K1 with wrapper tolerance. `allowed(top_fn) -> bool`. A call site of `pattern` is fine when its enclosing
    function is allowed, or when that function is a pure wrapper (calls `pattern` on every normal path) all of whose
    own call sites are fine (helper extraction keeps the rule satisfied). Returns [(fn, call)] of offending sites."""
    key = (id(F), pattern)
    if key not in _SUMM_CACHE:
        _SUMM_CACHE[key] = must_call_summary(F, pattern)
    summ = _SUMM_CACHE[key]
    r = re.compile(pattern)

    def sites_of(pred):
        return [(f, c) for f in F.fns.values() for c in f.calls if not c.indirect and pred(c)]

    def ok_site(f, c, d, seen):
        t = top_fn(F, f)
        if allowed(t):
            return True
        if d <= 0 or t.uid in seen or t.uid not in summ or t.kind == "Closure":
            return False
        # a small wrapper: every caller of the wrapper must be fine
        callers_ = sites_of(lambda x, u=t.uid: x.callee_uid() == u)
        if not callers_:
            return False
        return all(ok_site(g, cc, d - 1, seen | {t.uid}) for g, cc in callers_)

    bad = []
    n = 0
    for f, c in sites_of(lambda x: bool(r.search(x.name))):
        n += 1
        if not ok_site(f, c, depth, frozenset()):
            bad.append((f, c))
    return bad, n


def resolve_place(fn, place, depth=5):
    """expand the base local of a place through its defining ref/refmut/use/copy statements, so that
    `_4.*` with `_4 = &mut (*_1).index` reads `_1.*.{..::index}.*`"""
    for _ in range(depth):
        m = re.match(r"(_\d+)(.*)$", place)
        if not m:
            return place
        base, rest = m.group(1), m.group(2)
        ds = [st for st in fn.stmts if st.lhs == base and st.kind in ("ref", "refmut", "use")]
        if len(ds) != 1:
            return place
        src = re.sub(r"^(move|copy) ", "", ds[0].ops[0])
        if not re.match(r"_\d+", src):
            return place
        place = src + rest
    return place



def split_generic_args(ty):
    """top-level generic arguments of `path<A, B<C>, 'x>` as strings"""
    i = ty.find("<")
    if i < 0 or not ty.endswith(">"):
        return []
    inner = ty[i + 1:-1]
    out, depth, cur = [], 0, ""
    for ch in inner:
        if ch in "<([":
            depth += 1
        elif ch in ">)]":
            depth -= 1
        if ch == "," and depth == 0:
            out.append(cur.strip())
            cur = ""
        else:
            cur += ch
    if cur.strip():
        out.append(cur.strip())
    return out


def substitute_generics(adt, selfty, field_ty):
    """replace the ADT's generic parameter names in a field type by the arguments of the impl's self type"""
    args = split_generic_args(selfty)
    params = list(adt.generics)
    if len(args) != len(params):
        return field_ty
    out = field_ty
    for p_, a in zip(params, args):
        if p_.startswith("'"):
            continue
        out = re.sub(r"(?<![A-Za-z_:0-9])%s(?![A-Za-z_0-9])" % re.escape(p_), a, out)
    return out


# ------------------------------------------------------------------------------------------------------------
# K12: interval abstract interpretation of integer operands (is an overflow-checked operation provably exact?)

_IWIDTH = {"i8": 8, "i16": 16, "i32": 32, "i64": 64, "isize": 64, "i128": 128,
           "u8": 8, "u16": 16, "u32": 32, "u64": 64, "usize": 64, "u128": 128}
_CONST_SCALAR = re.compile(r"const Scalar\(0x([0-9a-f]+)\): (\w+)")
_CONST_PLAIN = re.compile(r"const (-?\d+)_(\w+)")
_TOP = (-(1 << 200), 1 << 200)


# results of std calls with a documented range
_CALL_RANGES = [
    (re.compile(r"^(core|std)::(num|i32|i64|isize)::.*::signum$|^i(32|64|size)::signum$|::<impl i(32|64|size)>::signum$"), (-1, 1)),
    (re.compile(r"^(std|core|alloc)::(vec::Vec|slice|str|string::String)\b.*::len$|::<impl \[T\]>::len$|::<impl str>::len$"),
     (0, (1 << 63) - 1)),
]


def type_range(ty):
    w = _IWIDTH.get(ty)
    if w is None:
        return (0, 1) if ty == "bool" else _TOP
    return (0, (1 << w) - 1) if ty.startswith("u") else (-(1 << (w - 1)), (1 << (w - 1)) - 1)


def _const_val(text):
    m = _CONST_SCALAR.search(text)
    if m:
        ty = m.group(2)
        w = _IWIDTH.get(ty)
        if w is None:
            return None
        v = int(m.group(1), 16)
        if ty.startswith("i") and v >= 1 << (w - 1):
            v -= 1 << w
        return v
    m = _CONST_PLAIN.search(text)
    if m:
        return int(m.group(1))
    return None


def int_range(fn, operand, depth=12, _defs=None):
    """a sound interval [lo, hi] for the value of an integer operand: constants by value, widening casts by their
    source, checked sums/differences/products by interval arithmetic, everything else the range of its type"""
    operand = operand.strip()
    if operand.startswith("const"):
        v = _const_val(operand)
        return (v, v) if v is not None else _TOP
    m = re.match(r"(?:copy |move )?(_\d+)$", operand)
    if not m:
        return _TOP
    l = m.group(1)
    full = type_range(fn.locals.get(l, ""))
    if depth <= 0:
        return full
    if _defs is None:
        _defs = defs_of(fn)
    defs, cdefs = _defs
    ds = [st for st in defs.get(l, []) if st.lhs == l]
    n = int(l[1:])
    if cdefs.get(l) and not defs.get(l) and len(cdefs[l]) == 1 and not (0 < n <= fn.nargs):
        for pat, r in _CALL_RANGES:
            if pat.search(cdefs[l][0].name):
                return _meet(full, r)
    if cdefs.get(l) or len(ds) != len(defs.get(l, [])) or not ds or 0 < n <= fn.nargs:
        return full
    lo, hi = None, None
    for st in ds:
        r = full
        if st.kind == "use" and st.ops:
            op = st.ops[0]
            mo = re.match(r"(?:copy |move )(_\d+)\.#0$", op)
            if mo:
                src = defs.get(mo.group(1), [])
                if len(src) == 1 and src[0].kind.startswith("binop ") and "WithOverflow" in src[0].kind \
                        and not cdefs.get(mo.group(1)):
                    r = _meet(full, _binop_range(fn, src[0], depth - 1, _defs))
            elif re.match(r"(?:copy |move )_\d+$", op) or op.startswith("const"):
                r = _meet(full, int_range(fn, op, depth - 1, _defs))
        elif st.kind == "cast IntToInt" and st.ops:
            inner = int_range(fn, st.ops[0], depth - 1, _defs)
            if len(st.ops) > 1:
                inner = _meet(inner, type_range(st.ops[1].split(" -> ")[0].strip()))
            # value-preserving only when the target can hold the whole source interval
            r = inner if full[0] <= inner[0] and inner[1] <= full[1] else full
        lo = r[0] if lo is None else min(lo, r[0])
        hi = r[1] if hi is None else max(hi, r[1])
    return (lo, hi)


def _meet(a, b):
    lo, hi = max(a[0], b[0]), min(a[1], b[1])
    return (lo, hi) if lo <= hi else a


def _binop_range(fn, st, depth, _defs):
    a, b = [x.strip() for x in st.ops[0].split(" , ")]
    (al, ah), (bl, bh) = int_range(fn, a, depth, _defs), int_range(fn, b, depth, _defs)
    if "Mul" in st.kind:
        c = [al * bl, al * bh, ah * bl, ah * bh]
        return (min(c), max(c))
    if "Sub" in st.kind:
        return (al - bh, ah - bl)
    return (al + bl, ah + bh)


def checked_arith_sites(fn):
    """overflow-checked Add/Sub/Mul statements of a function outside cleanup:
    (stmt, op, type, result interval, proven exact?)"""
    out = []
    d = None
    for st in fn.stmts:
        m = re.match(r"binop (Add|Sub|Mul)WithOverflow$", st.kind)
        if not m or st.bb in fn.cleanup:
            continue
        ty = st.ops[1].strip() if len(st.ops) > 1 else ""
        if d is None:
            d = defs_of(fn)
        r = _binop_range(fn, st, 12, d)
        t = type_range(ty)
        out.append((st, m.group(1), ty, r, t[0] <= r[0] and r[1] <= t[1]))
    return out


def conjunction_edges(fn, base_locals, base_edges, max_iter=6):
    """Edges that can only be taken when a test held, beyond the test's own true-edges: true-edges of boolean locals
    that are assigned `false`, or a value only in blocks edge-dominated by an establishing edge, or a copy of a local
    already known to imply the test (`let ok = a && b && test;` followed by `if ok`). Sound for the 'true' side only."""
    edges = set(base_edges)
    implied = set(base_locals)
    for l in list(implied):
        edges |= bool_local_edges(fn, l, "true")
    for _ in range(max_iter):
        added = False
        for l, ty in fn.locals.items():
            if ty != "bool" or l in implied:
                continue
            cdefs = [c for c in fn.calls if c.dest_local == l and c.bb not in fn.cleanup]
            defs = [st for st in fn.stmts if st.lhs == l and st.bb not in fn.cleanup]
            if not defs and not cdefs:
                continue
            ok, has_true = True, False
            for c in cdefs:  # assigned by a call (the last conjunct of `a && b && c()`): fine where the call can
                has_true = True  # only run after an establishing edge
                if not any(fn.edge_dominates(e, c.bb) for e in edges):
                    ok = False
            if not ok:
                continue
            for st in defs:
                txt = st.text()
                if st.kind == "use" and re.search(r"const (false|Scalar\(0x00\): bool)", txt):
                    continue
                has_true = True
                if any(fn.edge_dominates(e, st.bb) for e in edges):
                    continue
                srcs = locals_in(txt)
                if st.kind == "use" and len(srcs) == 1 and srcs[0] in implied:
                    continue
                ok = False
                break
            if ok and has_true:
                implied.add(l)
                new = bool_local_edges(fn, l, "true") - edges
                if new:
                    edges |= new
                added = True
        if not added:
            break
    return edges


# ------------------------------------------------------------------------------------------------------------
# reviewed tables that survive a rename / move of the reviewed function

_LIVE = {}


def live_names(F):
    """short names of every function (and native) present in the facts"""
    k = id(F)
    if k not in _LIVE:
        s = set()
        for f in F.fns.values():
            s.add(short_fn(f.qpath))
        _LIVE[k] = s
    return _LIVE[k]


def reviewed(F, table, who, rest=None, extra_live=()):
    """Look a site up in a reviewed table keyed by function name (`who`, or `who:rest` when `rest` is given).
    Returns the table value or None. When the key is missing, an entry whose function no longer exists anywhere in the
    tree and that has the same `rest` is taken to be the same site after a rename/move of the function (exactly one
    such stale entry must exist): a behaviour-preserving rename must not raise an alarm, while a NEW site in a function
    that still has its own entry, or a second new site, still does."""
    key = who if rest is None else "%s:%s" % (who, rest)
    keys = list(table.keys()) if isinstance(table, dict) else list(table)
    if key in table:
        return table[key] if isinstance(table, dict) else True
    live = live_names(F) | set(extra_live)
    stale = []
    for k in keys:
        if not isinstance(k, str):
            continue
        kw, _, kr = k.partition(":") if rest is not None else (k, "", "")
        if rest is not None:
            # the function part may itself contain ':' (e.g. `Foo as Bar::baz`): split from the right by `rest`
            if not k.endswith(":" + rest):
                continue
            kw = k[: -len(rest) - 1]
        if kw not in live:
            stale.append(k)
    def qual(name):
        name = name[: -len(rest) - 1] if rest is not None and name.endswith(":" + rest) else name
        return name.rsplit("::", 1)[0] if "::" in name else ""
    if len(stale) > 1:
        # several stale entries (other configurations' sites are stale here too): keep those of the same type / module
        stale = [k for k in stale if qual(k) == qual(who)]
    if len(stale) == 1:
        return table[stale[0]] if isinstance(table, dict) else True
    return None
