"""Entry point: ./check <property> [--tier quick|thorough] [--replay file] [--repo dir]"""
import argparse
import gc
import importlib
import json
import os
import sys
import time
import traceback

HERE = os.path.dirname(os.path.abspath(__file__))
VERIF = os.path.dirname(HERE)
sys.path.insert(0, HERE)

import extract  # noqa: E402
import facts  # noqa: E402
from facts import AnchorMissing  # noqa: E402

PROPS = ["C%02d" % i for i in range(1, 21)]


class Ctx:
    """Collects obligations, violations and evidence for one property run."""

    def __init__(s, prop, tier, repo, seed, only=None):
        s.config = "core"   # which extraction the rules see when they ask for facts
        s.prefix = ""       # key prefix of a secondary pass (e.g. "pagable/")
        s.lenient = False   # secondary passes do not enforce instance floors
        s.prop = prop
        s.tier = tier
        s.repo = repo
        s.seed = seed
        s.only = only  # (rule, key) filter for --replay
        s.obligations = 0
        s.discharged = 0
        s.by_rule = {}
        s.samples = []
        s.viol = []  # dicts
        s.known_hits = []
        s.notes = []
        s.assumptions = []
        s.info = {}
        s.instances = set()
        s._facts = {}
        s.extractions = []
        s.selftests = []
        kf = os.path.join(VERIF, "known_findings.json")
        s.known = {}
        s.fixed = {}
        if os.path.exists(kf):
            for e in json.load(open(kf))["findings"]:
                if e["property"] != prop:
                    continue
                (s.known if e["status"] == "known" else s.fixed)[e["key"]] = e

    # ---- facts
    def facts(s, config="core"):
        config = s.config
        if config not in s._facts:
            d, info = extract.extract(s.repo, config)
            s.extractions.append(info)
            gc.disable()
            try:
                s._facts[config] = facts.load(d)
            finally:
                gc.enable()
        return s._facts[config]

    # ---- reporting
    def _rule(s, rule):
        return s.by_rule.setdefault(rule, dict(instances=0, discharged=0, violations=0, known=0))

    def ok(s, rule, key, what=None):
        """one obligation discharged"""
        if s.only and (rule, key) != s.only:
            return
        key = s.prefix + key
        r = s._rule(rule)
        r["instances"] += 1
        r["discharged"] += 1
        s.obligations += 1
        s.discharged += 1
        s.instances.add((rule, key))
        if what and sum(1 for x in s.samples if x["rule"] == rule) < 3:
            s.samples.append(dict(rule=rule, instance=key, discharged_by=what))

    def bad(s, rule, key, what, fn=None, line=None, expected=None, path=None):
        """one obligation violated. key must not contain line numbers."""
        if s.only and (rule, key) != s.only:
            return
        full = "%s:%s" % (rule, key)  # known findings are keyed without the pass prefix
        key = s.prefix + key
        r = s._rule(rule)
        r["instances"] += 1
        s.obligations += 1
        s.instances.add((rule, key))
        where = fn.loc(line) if fn is not None else None
        rec = dict(property=s.prop, rule=rule, key=key, full_key=full if not s.prefix else "%s:%s" % (rule, key),
                   known_key=full, what=what, where=where,
                   function=fn.qpath if fn is not None else None, expected=expected, path=path)
        if full in s.known:
            r["known"] += 1
            if not any(h["known_key"] == full for h in s.known_hits):
                s.known_hits.append(rec)
        else:
            r["violations"] += 1
            s.viol.append(rec)

    def check(s, cond, rule, key, what_ok, what_bad, **kw):
        if cond:
            s.ok(rule, key, what_ok)
        else:
            s.bad(rule, key, what_bad, **kw)
        return cond

    def floor(s, rule, what, n, floor, inventory=False):
        """instance-count floor (fail closed). `floor` is the number counted on the pinned tree. For mechanism
        anchors (every instance is needed) the floor is exact; for inventories of dangerous constructs, where fewer
        sites are harmless, the check only guards against a vacuous matcher (75% of the counted number)."""
        if s.only or s.lenient:
            return
        need = max(1, (floor * 3) // 4) if inventory else floor
        s.info.setdefault("floors", {})["%s %s" % (rule, what)] = dict(count=n, counted_on_pinned_tree=floor, required=need)
        if n < need:
            s.bad(rule, "floor:" + what, "instance count %d fell below the floor %d (counted on the pinned tree: %d) "
                                         "(anchor-missing: the rule would pass vacuously)" % (n, need, floor))

    def note(s, text):
        s.notes.append(text)

    def assume(s, text):
        if text not in s.assumptions:
            s.assumptions.append(text)


def run_property(prop, tier, repo, seed, only=None):
    ctx = Ctx(prop, tier, repo, seed, only)
    t0 = time.time()
    try:
        mod = importlib.import_module("rules." + prop)
    except ModuleNotFoundError:
        print("no rule module for %s" % prop, file=sys.stderr)
        return 2
    base = getattr(mod, "QUICK_CONFIG", "core")  # the crates a property's rules need (C19: the LSP crate)
    passes = [(os.environ.get("VERIF_REPLAY_CONFIG", base) if only else base, "", False)]
    if tier == "thorough" and not only:
        passes = [("full", "", False), ("pagable", "pagable/", True), ("nodebug", "nodebug/", True)]
    for config, prefix, lenient in passes:
        ctx.config, ctx.prefix, ctx.lenient = config, prefix, lenient
        try:
            mod.run(ctx)
        except AnchorMissing as e:
            ctx.bad("anchor", "anchor-missing:" + str(e)[:120].replace("\n", " "), "anchor-missing: %s" % e)
        except RuntimeError as e:
            ctx.bad("extract", "extraction-failed", "fact extraction failed: %s" % str(e)[:2000])
        except Exception:
            ctx.bad("internal", "checker-error", "checker raised: %s" % traceback.format_exc()[-1500:])
    ctx.prefix, ctx.lenient = "", False
    if tier == "thorough" and not only and os.path.realpath(repo) == "/repo":
        try:
            import thorough
            thorough.witnesses(ctx)
            thorough.selftests(ctx)
        except Exception:
            ctx.note("thorough extras failed: " + traceback.format_exc()[-800:])
    wall = time.time() - t0

    # stale known findings (listed but not observed) are reported, never an error
    stale = [k for k in ctx.known if k not in {v["known_key"] for v in ctx.known_hits}]

    outdir = os.path.join(VERIF, "out", prop)
    os.makedirs(outdir, exist_ok=True)
    lines = []
    for v in ctx.known_hits:
        lines.append("KNOWN-FINDING: property=%s %s %s" % (prop, v["known_key"], ctx.known[v["known_key"]]["what"]))
    for v in ctx.viol:
        safe = "".join(ch if ch.isalnum() or ch in "._-" else "_" for ch in v["full_key"])[:120]
        rp = os.path.join(outdir, safe + ".json")
        with open(rp, "w") as fh:
            json.dump(v, fh, indent=1)
        lines.append("# %s %s: %s%s" % (v["full_key"], v["where"] or "", v["what"],
                                        (" | path: " + " -> ".join(v["path"])) if v.get("path") else ""))
        lines.append("VIOLATION property=%s replay=%s" % (prop, rp))

    if not only and os.path.realpath(repo) != "/repo":
        print("note: --repo %s is not /repo: evidence file not rewritten" % repo)
    if not only and os.path.realpath(repo) == "/repo":
        desc = getattr(mod, "DESCRIPTION", "")
        undecided = getattr(mod, "NOT_DECIDED", "")
        cov = dict(
            explanation=("Static analysis of the type-checked program (MIR/impl/ADT facts extracted by the svfacts "
                         "rustc driver from /repo's working tree, tree hash %s). %s Each obligation is one rule "
                         "instance (a site, function, path, type or table row) evaluated on the current source; "
                         "nothing was executed." % (
                             ",".join(sorted({e["tree_hash"] for e in ctx.extractions})) or "-", desc)),
            obligations=ctx.obligations,
            discharged=ctx.discharged,
            evaluations=max(ctx.obligations, 1),
            distinct_nontrivial=len(ctx.instances),
            rule="one evaluation = one rule instance keyed (rule, site); distinct = distinct keys; every instance "
                 "is a concrete construct of the current tree, none is trivial by construction (floors fail closed)",
            samples=ctx.samples[:40] or [dict(note="no instance discharged")],
            by_rule=ctx.by_rule,
            checker_cmd="./check %s --tier %s" % (prop, tier),
            trusted_base=["rustc nightly front end (type check, MIR build, Instance::try_resolve)",
                          "svfacts fact printer", "svrules kernels (CFG reachability, call graph)"],
            not_decided=undecided,
            known_findings=[v["known_key"] for v in ctx.known_hits],
            witnesses=ctx.info.pop("witnesses", None),
            stale_known_findings=stale,
            fixed_findings=sorted(ctx.fixed),
            extractions=ctx.extractions,
            selftests=ctx.selftests,
            notes=ctx.notes,
            exhaustive=False,
        )
        cov.update(ctx.info)
        ev = dict(property_id=prop, tier=tier, seed=seed, level="other", coverage=cov,
                  assumptions=ctx.assumptions + [
                      "the nightly front end sees the same program as the pinned stable toolchain (cfg(rust_nightly) "
                      "hints only)", "cfg(test), wasm32 and non-Linux cfgs are not analysed",
                      "dominance is computed on normal (non-unwind) edges unless a rule says otherwise"],
                  wall_s=round(wall, 2), violations=len(ctx.viol))
        os.makedirs(os.path.join(VERIF, "evidence"), exist_ok=True)
        tmp = os.path.join(VERIF, "evidence", ".%s.json.%d" % (prop, os.getpid()))
        with open(tmp, "w") as fh:
            json.dump(ev, fh, indent=1, sort_keys=True)
            fh.write("\n")
        os.replace(tmp, os.path.join(VERIF, "evidence", prop + ".json"))

    print("%s tier=%s obligations=%d discharged=%d known=%d violations=%d wall=%.1fs" % (
        prop, tier, ctx.obligations, ctx.discharged, len(ctx.known_hits), len(ctx.viol), wall))
    for r, d in sorted(ctx.by_rule.items()):
        print("  %-12s instances=%d discharged=%d known=%d violations=%d" % (
            r, d["instances"], d["discharged"], d["known"], d["violations"]))
    for l in lines:
        print(l)
    if stale:
        print("note: known findings not observed in this run (repaired?): %s" % ", ".join(stale))
    return 1 if ctx.viol else 0


def main():
    ap = argparse.ArgumentParser()
    ap.add_argument("prop")
    ap.add_argument("--tier", default=os.environ.get("VERIF_TIER", "quick"), choices=["quick", "thorough"])
    ap.add_argument("--replay")
    ap.add_argument("--repo", default=os.environ.get("VERIF_REPO", "/repo"))
    a = ap.parse_args()
    try:
        seed = int(os.environ.get("VERIF_SEED", "0"))
    except ValueError:
        seed = 0
    only = None
    if a.replay:
        v = json.load(open(a.replay))
        key = v["key"]
        for pre, cfg in (("pagable/", "pagable"), ("nodebug/", "nodebug")):
            if key.startswith(pre):
                key = key[len(pre):]
                os.environ["VERIF_REPLAY_CONFIG"] = cfg
        only = (v["rule"], key)
    props = PROPS if a.prop == "all" else [a.prop]
    rc = 0
    for p in props:
        if a.prop == "all" and not os.path.exists(os.path.join(HERE, "rules", p + ".py")):
            continue
        rc = max(rc, run_property(p, a.tier, a.repo, seed, only))
    sys.exit(rc)


if __name__ == "__main__":
    main()
