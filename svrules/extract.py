"""Run the svfacts driver over a source tree and cache the fact files by content hash.

Nothing here executes starlark-rust code: `cargo +nightly check` type-checks the workspace
with the driver injected as RUSTC_WORKSPACE_WRAPPER, and the driver dumps facts after analysis.
"""
import fcntl
import glob
import hashlib
import os
import shutil
import subprocess
import sys
import time

VERIF = os.path.dirname(os.path.dirname(os.path.abspath(__file__)))
CACHE = os.path.join(VERIF, ".cache")
DRIVER = os.path.join(VERIF, "svfacts", "target", "release", "svfacts")

# workspace members whose fingerprints must be deleted so that cargo re-invokes the wrapper
MEMBERS = [
    "allocative", "allocative_derive", "gazebo", "display_container", "dupe", "dupe_derive",
    "gazebo_derive", "cmp_any", "strong_hash", "strong_hash_derive", "pagable", "pagable_derive",
    "starlark", "starlark_bin", "starlark_derive", "starlark_js_example", "starlark_lsp",
    "starlark_map", "starlark_syntax",
]

CONFIGS = {
    # name: (cargo package args, extra cargo args, rustflags, required crates)
    "core": (["-p", "starlark"], [], "-Zmir-opt-level=0 -Awarnings",
             ["starlark", "starlark_map", "starlark_syntax"]),
    "full": (["-p", "starlark", "-p", "starlark_lsp", "-p", "starlark_bin"], [],
             "-Zmir-opt-level=0 -Awarnings",
             ["starlark", "starlark_map", "starlark_syntax", "starlark_lsp"]),
    "pagable": (["-p", "starlark"], ["--features", "pagable"], "-Zmir-opt-level=0 -Awarnings",
                ["starlark", "starlark_map", "starlark_syntax"]),
    "nodebug": (["-p", "starlark"], [],
                "-Zmir-opt-level=0 -Awarnings -C debug-assertions=off -C overflow-checks=off",
                ["starlark", "starlark_map", "starlark_syntax"]),
}


def sysroot_lib():
    out = subprocess.run(["rustc", "+nightly", "--print", "sysroot"], capture_output=True, text=True,
                         check=True).stdout.strip()
    return os.path.join(out, "lib")


def tree_hash(repo, config):
    h = hashlib.sha256()
    h.update(config.encode())
    h.update(repr(CONFIGS[config]).encode())
    with open(DRIVER, "rb") as fh:
        h.update(hashlib.sha256(fh.read()).digest())
    files = []
    for root, dirs, fnames in os.walk(repo):
        dirs[:] = [d for d in dirs if d not in ("target", ".git", "node_modules", "vscode", "docs")]
        for fn in fnames:
            if fn.endswith(".rs") or fn in ("Cargo.toml", "Cargo.lock") or fn.endswith(".lalrpop"):
                files.append(os.path.join(root, fn))
    files.sort()
    for p in files:
        h.update(os.path.relpath(p, repo).encode())
        h.update(b"\0")
        with open(p, "rb") as fh:
            h.update(hashlib.sha256(fh.read()).digest())
    return h.hexdigest()[:24], len(files)


def _prune(cdir, keep):
    ents = sorted((os.path.getmtime(p), p) for p in glob.glob(os.path.join(cdir, "*")) if os.path.isdir(p))
    for _, p in ents[:-keep]:
        shutil.rmtree(p, ignore_errors=True)


def extract(repo="/repo", config="core", log=sys.stderr, keep=4):
    """Return (facts_dir, info). Raises RuntimeError when the tree does not compile."""
    if not os.path.exists(DRIVER):
        raise RuntimeError("svfacts driver not built: run ./setup.sh")
    repo = os.path.abspath(repo)
    os.makedirs(CACHE, exist_ok=True)
    th, nfiles = tree_hash(repo, config)
    cdir = os.path.join(CACHE, "facts", config)
    out = os.path.join(cdir, th)
    okf = os.path.join(out, "OK")
    # one lock for every configuration: they share the target directory, and deleting the members' fingerprints
    # while another cargo run uses that directory makes the other run fail
    lockp = os.path.join(CACHE, "lock-extract")
    t0 = time.time()
    if os.path.exists(okf):  # fast path: no need to wait for somebody else's extraction
        try:
            os.utime(out, None)
        except OSError:
            pass
        return out, dict(cached=True, tree_hash=th, source_files=nfiles, wall_s=0.0, config=config)
    with open(lockp, "w") as lk:
        fcntl.flock(lk, fcntl.LOCK_EX)
        if os.path.exists(okf):
            os.utime(out, None)
            return out, dict(cached=True, tree_hash=th, source_files=nfiles, wall_s=0.0, config=config)
        shutil.rmtree(out, ignore_errors=True)
        os.makedirs(out)
        target = os.path.join(CACHE, "target-nightly")
        for m in MEMBERS:
            for p in glob.glob(os.path.join(target, "debug", ".fingerprint", m + "-*")):
                shutil.rmtree(p, ignore_errors=True)
        pk, extra, rustflags, required = CONFIGS[config]
        nonce = "%s-%d" % (th, int(t0))
        env = dict(os.environ)
        env.update(
            LD_LIBRARY_PATH=sysroot_lib(), SVFACTS_OUT=out, SVFACTS_NONCE=nonce, RUSTFLAGS=rustflags,
            RUSTC_WORKSPACE_WRAPPER=DRIVER, CARGO_TARGET_DIR=target, CARGO_NET_OFFLINE="true",
        )
        env.pop("RUSTC_WRAPPER", None)
        cmd = ["cargo", "+nightly", "check", "--offline", "-j", "16"] + pk + extra
        p = subprocess.run(cmd, cwd=repo, env=env, capture_output=True, text=True)
        if p.returncode != 0:
            tail = "\n".join(p.stderr.splitlines()[-40:])
            shutil.rmtree(out, ignore_errors=True)
            raise RuntimeError("extraction failed (tree does not type-check under nightly):\n" + tail)
        got = {}
        for fp in glob.glob(os.path.join(out, "*.facts")):
            with open(fp) as fh:
                first = fh.readline().rstrip("\n").split("\t")
            if len(first) >= 4 and first[3] == nonce:
                got.setdefault(first[1], []).append(fp)
        missing = [c for c in required if c not in got]
        if missing:
            shutil.rmtree(out, ignore_errors=True)
            raise RuntimeError("fact files missing for crates %s (driver skipped by cargo freshness?)" % missing)
        with open(okf, "w") as fh:
            fh.write(nonce + "\n")
        _prune(cdir, keep)
    return out, dict(cached=False, tree_hash=th, source_files=nfiles, wall_s=round(time.time() - t0, 1),
                     config=config)


if __name__ == "__main__":
    cfg = sys.argv[1] if len(sys.argv) > 1 else "core"
    repo = sys.argv[2] if len(sys.argv) > 2 else "/repo"
    d, info = extract(repo, cfg)
    print(d, info)
