"""C18 - profilers, statement hooks and the debugger observe without interfering (structural clauses)."""
import re

from kern import CallGraph, calls_by_name, match_arms, short_fn, top_fn
from rules.C02 import SINKS

DESCRIPTION = ("C18 clauses decided: R1 the profile recorders (heap, time-flame, statement, bytecode, typecheck) cannot "
               "reach a call-back into user code, a mutation entry point, a module-slot write or print (call-graph "
               "reachability); R2 there is one interpreter: instruction dispatch for execution happens only in step, "
               "step is called only from run_block, run_block only from Bc::run, and the instrumented variant differs "
               "only by the EvaluationCallbacks argument whose error is returned before the instruction runs; "
               "R3 enabling any heap profile mode disables GC.")
NOT_DECIDED = "breakpoint hit counts, variable views and stepping behaviour of the debug adapter: needs execution"

RECORDERS = [
    r"eval::runtime::profile::heap::HeapProfile::record_call_enter$",
    r"eval::runtime::profile::heap::HeapProfile::record_call_exit$",
    r"eval::runtime::profile::time_flame::TimeFlameProfile::<'v>::record_call_enter$",
    r"eval::runtime::profile::time_flame::TimeFlameProfile::<'v>::record_call_exit$",
    r"eval::runtime::profile::stmt::StmtProfile::before_stmt$",
    r"eval::runtime::profile::bc::BcProfile::before_instr$",
    r"eval::runtime::profile::typecheck::TypecheckProfile::add$",
]


def r1(ctx, F):
    cg = CallGraph(F, expand="full")
    sinks = {k: {u for u, f in F.fns.items() if re.search(p, f.qpath)} for k, p in SINKS.items()}
    for pat in RECORDERS:
        f = F.one(pat)
        R = cg.reach([f.uid])
        hit = [k for k, v in sinks.items() if R & v]
        key = "recorder:" + short_fn(f.qpath)
        if hit:
            p = cg.path(f.uid, sinks[hit[0]])
            ctx.bad("C18.R1", key, "profile recorder `%s` can reach: %s (observation would change the program's "
                                   "behaviour)" % (short_fn(f.qpath), ", ".join(hit)), fn=f,
                    path=[short_fn(x) for x in cg.names(p)] if p else None)
        else:
            ctx.ok("C18.R1", key, "no path to an effect sink")


def r2(ctx, F):
    chain = [
        (r"eval::bc::bytecode::step$", {"bytecode::run_block"}),
        (r"eval::bc::bytecode::run_block$", {"Bc::run"}),
    ]
    for pat, allowed in chain:
        tgt = F.one(pat)
        sites = [(f, c) for f in F.fns.values() for c in f.calls if not c.indirect and c.callee_uid() == tgt.uid]
        ctx.floor("C18.R2", "callers of " + tgt.name, len(sites), 1)
        for f, c in sites:
            s = short_fn(top_fn(F, f).qpath)
            ctx.check(s in allowed, "C18.R2", "%s<-%s" % (tgt.name, s), "single caller",
                      "`%s` is also called from `%s`: a second interpreter loop exists" % (tgt.name, s), fn=f,
                      line=c.line)
    # dispatch for execution: BcOpcode::dispatch with a handler that runs instructions only in step
    disp = F.one(r"eval::bc::opcode::BcOpcode::dispatch$")
    run_handlers = []
    for f in F.fns.values():
        if re.search(r"as eval::bc::opcode::BcOpcodeHandler<.*>>::handle$", f.qpath):
            if any(re.search(r"BcInstr>::run$|bc::instr::BcInstr::run$", c.name) for c in f.calls):
                run_handlers.append(f)
    ctx.floor("C18.R2", "opcode handlers that execute instructions", len(run_handlers), 1)
    for f in run_handlers:
        s = short_fn(f.qpath)
        ctx.check("step::" in f.qpath, "C18.R2", "executing-handler:" + s,
                  "the only handler that runs instructions is step's HandlerImpl",
                  "`%s` runs instructions outside bytecode::step" % f.qpath, fn=f)
    # in step: before_instr precedes dispatch and its error returns without dispatching
    st = F.one(r"eval::bc::bytecode::step$")
    bi = [c for c in st.calls if re.search(r"EvaluationCallbacks::before_instr$", c.name)]
    dc = [c for c in st.calls if not c.indirect and c.callee_uid() == disp.uid]
    good = bool(bi) and bool(dc) and all(st.dominates(bi[0].bb, d.bb) for d in dc)
    if good:
        from kern import outcome_edges
        ee = outcome_edges(F, st, bi[0], "Err")
        good = bool(ee) and all(d.bb not in st.reach([t]) for (_, t) in ee for d in dc)
    ctx.check(good, "C18.R2", "step:callback-then-dispatch",
              "before_instr dominates the dispatch and its error path does not execute the instruction",
              "step no longer calls the instrumentation callback before dispatch / executes after a callback error",
              fn=st)
    # Bc::run is generic over the callbacks and forwards them unchanged; its callers instantiate it with the
    # disabled or the enabled callbacks only
    br = F.one(r"eval::bc::bytecode::Bc::run$")
    rb = [c for c in br.calls if re.search(r"bytecode::run_block$", c.name)]
    ctx.check(len(rb) == 1 and rb[0].full.endswith("run_block::<EC>"), "C18.R2", "Bc::run:forwards-callbacks",
              "Bc::run calls the one run_block with its own callback type parameter",
              "Bc::run no longer forwards its callbacks to a single run_block (%s)" % [c.full[-40:] for c in rb], fn=br)
    insts = set()
    sites = [(f, c) for f in F.fns.values() for c in f.calls if not c.indirect and c.callee_uid() == br.uid]
    for f, c in sites:
        m = re.search(r"Bc::run::<(.*)>$", c.full)
        insts.add(re.sub(r"<.*", "", m.group(1)).split("::")[-1] if m else c.full[-40:])
    ctx.floor("C18.R2", "callers of Bc::run", len(sites), 2)
    ctx.check(insts <= {"EvalCallbacksDisabled", "EvalCallbacksEnabled", "EC"} and "EvalCallbacksDisabled" in insts
              and "EvalCallbacksEnabled" in insts, "C18.R2", "Bc::run:instantiations",
              "the interpreter is instantiated with EvalCallbacksDisabled and EvalCallbacksEnabled only",
              "Bc::run is instantiated with %s" % sorted(insts), fn=br)


def r3(ctx, F):
    ep = F.one(r"evaluator::Evaluator::<'v, 'a, 'e>::enable_profile$")
    m = match_arms(F, ep, r"eval::runtime::profile::mode::ProfileMode$|ProfileMode$")
    FIELD = "{eval::runtime::evaluator::Evaluator::disable_gc}"

    class _W:  # a block in which disable_gc is set to true (directly, or by a helper that always does so)
        def __init__(s_, bb, txt):
            s_.bb = bb
            s_._t = txt

        def text(s_):
            return s_._t
    writes = [_W(s_.bb, s_.text()) for s_ in ep.stmts if s_.lhs.endswith(FIELD) and s_.bb not in ep.cleanup]
    for c in ep.calls:
        if c.indirect or c.bb in ep.cleanup:
            continue
        g = F.fns.get(c.callee_uid())
        if g is None or g.crate != "starlark":
            continue
        ws = [s_ for s_ in g.stmts if s_.lhs.endswith(FIELD) and s_.bb not in g.cleanup and "0x01" in s_.text()]
        if ws and g.must_pass_from_entry([w.bb for w in ws], g.returns()):
            writes.append(_W(c.bb, "const 0x01 (via %s)" % g.name))
    if not m or not writes:
        ctx.bad("C18.R3", "enable_profile:anchor", "anchor-missing: match on ProfileMode / write of disable_gc", fn=ep)
        return
    bb, arms, other, allv = m
    heap_modes = sorted(v for v in allv if v.startswith("Heap"))
    ctx.floor("C18.R3", "heap profile modes", len(heap_modes), 6)
    for v in heap_modes:
        t = arms.get(v, other)
        good = not (set(ep.returns()) & ep.reach([t], cut_blocks={w.bb for w in writes}))
        const_true = all("0x01" in w.text() for w in writes)
        ctx.check(good and const_true, "C18.R3", "heap-profile-disables-gc:" + v,
                  "every path of the %s arm sets disable_gc = true" % v,
                  "enabling ProfileMode::%s no longer disables GC: a collection would drop the allocation records the "
                  "profile is built from (and the profile changes when GC runs)" % v, fn=ep)


def r4_breakpoint_suppression_balanced(ctx, F):
    """the debugger suppresses breakpoints while it evaluates an expression on the client's behalf by raising a counter;
    every path out of that function lowers it again (in the function itself, not in a closure that may not run):
    otherwise one failed `evaluate` (e.g. an unparsable watch expression) leaves every breakpoint disabled for the rest
    of the session"""
    n = 0
    for f in F.fns.values():
        if f.crate != "starlark" or "src/debug/" not in f.span or f.kind == "Closure":
            continue
        adds = [c for c in f.calls if c.bb not in f.cleanup and re.search(r"atomic::Atomic\w*(::<\w+>)?::fetch_add$", c.name)]
        if not adds:
            continue
        subs = [c.bb for c in f.calls if c.bb not in f.cleanup
                and re.search(r"atomic::Atomic\w*(::<\w+>)?::fetch_sub$", c.name)]
        # RAII form: a local guard whose Drop lowers the counter (dropped on every exit, unwinding included)
        raii = set()
        for d in F.fns.values():
            m = re.search(r"<(.+) as std::ops::Drop>::drop$", d.qpath)
            if m and d.crate == "starlark" and "src/debug/" in d.span and any(
                    re.search(r"atomic::Atomic\w*(::<\w+>)?::fetch_sub$", c.name) for c in d.calls):
                raii.add(re.sub(r"<.*", "", m.group(1)).split("::")[-1])
        guards = [st.bb for st in f.stmts if st.kind.startswith("agg adt ") and st.bb not in f.cleanup
                  and st.kind.split("::")[-1] in raii]
        for a in adds:
            n += 1
            ok = bool(subs) and f.must_pass(a.bb, subs, f.returns())
            ok = ok or (bool(guards) and (f.must_pass(a.bb, guards, f.returns()) or any(f.dominates(g, a.bb) for g in guards)))
            ctx.check(ok, "C18.R4",
                      "suppression-balanced:" + short_fn(f.qpath),
                      "every path from the counter's increment to a return decrements it",
                      "`%s` raises the breakpoint-suppression counter and can return without lowering it (the decrement "
                      "is missing on a path, or lives in a closure that only runs on success): breakpoints stay "
                      "disabled for the rest of the session" % short_fn(f.qpath), fn=f, line=a.line)
    ctx.floor("C18.R4", "suppression counter increments in the debugger", n, 1)


def r5_breakpoints_keyed_by_position(ctx, F):
    """breakpoints arrive from the client as positions in a file and are resolved against whatever parse of that file
    the adapter is given; the program that later runs may be a different parse (or a function of a loaded, frozen
    module). The lookup table must therefore be keyed by position (file name + Span). CodeMap - and FileSpan, which
    contains one - compare and hash by the identity of the parse, so a table keyed by them only matches when the very
    same AstModule object is resolved and evaluated: breakpoints elsewhere are silently never hit."""
    n = 0
    for f in F.fns.values():
        if f.crate != "starlark" or "src/debug/" not in f.span:
            continue
        for c in f.calls:
            if c.indirect or c.bb in f.cleanup:
                continue
            m = re.search(r"(HashMap|HashSet|BTreeMap|BTreeSet|SmallMap|SmallSet)(::)?<\s*(starlark_syntax::)?codemap::"
                          r"(FileSpan|CodeMap)\b", c.full)
            if m:
                n += 1
                ctx.bad("C18.R5", "debugger-table-keyed-by-parse-identity:%s:%s" % (short_fn(top_fn(F, f).qpath), m.group(4)),
                        "`%s` uses a %s keyed by %s in the debugger: the key compares by CodeMap identity, so entries "
                        "resolved from one parse of a file never match statements of another parse / of a loaded module"
                        % (short_fn(top_fn(F, f).qpath), m.group(1), m.group(4)), fn=f, line=c.line)
    spans = sum(1 for f in F.fns.values() if f.crate == "starlark" and "src/debug/" in f.span for c in f.calls
                if re.search(r"(HashMap|HashSet)(::)?<\s*(starlark_syntax::)?codemap::Span\b", c.full))
    ctx.check(n == 0 and spans >= 1, "C18.R5", "breakpoint-table-keyed-by-span",
              "the debugger's tables are keyed by Span (position), %d uses" % spans,
              "the debugger no longer keeps a table keyed by codemap::Span (found %d)" % spans)


def run(ctx):
    F = ctx.facts("core")
    r4_breakpoint_suppression_balanced(ctx, F)
    r5_breakpoints_keyed_by_position(ctx, F)
    r1(ctx, F)
    r2(ctx, F)
    r3(ctx, F)
