"""C19 - IDE answers are well-formed: only the 'UTF-16 column convention' clause has a structural form."""
import re

from kern import locals_in, origins, short_fn, top_fn

DESCRIPTION = ("C19 clause decided: 'every range it returns denotes positions under the protocol's UTF-16 column "
               "convention'. Internally columns are counted in Unicode scalar values (ResolvedPos.column, computed by "
               "CodeMap::find_line_col); R1 every construction of an lsp_types::Position whose `character` derives from "
               "such a column must pass through a UTF-16 conversion, and conversely every read of "
               "lsp_types::Position.character used as an internal column must be converted back.")
NOT_DECIDED = ("that the server answers every request without crashing or hanging, and agreement of the IDE's name "
               "resolution with the compiler's scope resolver: value-level relations between two tree walks")

UTF16 = re.compile(r"utf16|encode_utf16|Utf16", re.I)
COLUMN = re.compile(r"ResolvedPos::column\}")


def derives_from_column(fn, operand):
    """does the operand's value come from a ResolvedPos.column read (following copies/casts)? returns (bool, via_utf16)"""
    seen = set()
    work = locals_in(operand)
    col = False
    conv = False
    which = set()
    while work:
        l = work.pop()
        if l in seen:
            continue
        seen.add(l)
        for st in fn.stmts:
            if st.lhs_local == l:
                if COLUMN.search(st.text()):
                    col = True
                for w in re.findall(r"ResolvedSpan::(begin|end)\}", st.text()):
                    which.add(w)
                work += locals_in(st.text())
        for c in fn.calls:
            if c.dest_local == l:
                if UTF16.search(c.name):
                    conv = True
                for a in c.args:
                    if COLUMN.search(a):
                        col = True
                    for w in re.findall(r"ResolvedSpan::(begin|end)\}", a):
                        which.add(w)
                    work += locals_in(a)
    return col, conv, "+".join(sorted(which))


QUICK_CONFIG = "full"  # the rules read the LSP crate, which only the `full` extraction contains


def r2_comprehension_scope(ctx, F):
    """name resolution agreement, comprehension clause: the compiler resolves the iterable of the FIRST `for` of a
    comprehension in the enclosing scope and everything else in the comprehension's own scope
    (scope.rs: resolve_idents_in_for_clause(first_for) dominates enter_compr). The IDE's binder (starlark_lsp/bind.rs:
    comprehension) must do the same: it visits `for_.over` into the enclosing accumulator (its `res` parameter), not
    into the inner scope it builds. Otherwise go-to-definition on `x` in `[x for x in x]` lands on the loop variable
    although the program reads the outer x."""
    g = F.one(r"eval::compiler::scope::ModuleScopeBuilder::<'f>::resolve_idents_in_compr$")
    fc = [c for c in g.calls if c.bb not in g.cleanup and re.search(r"::resolve_idents_in_for_clause$", c.name)]
    en = [c for c in g.calls if c.bb not in g.cleanup and re.search(r"::enter_compr$", c.name)]
    ref_ok = bool(fc) and len(en) == 1 and any(
        "_3" in locals_in(" ".join(c.args)) or any(o == ("param", "_3") for a in c.args for o in origins(g, a, pass_calls=None))
        for c in fc if g.dominates(c.bb, en[0].bb) and c.bb != en[0].bb and c.bb not in g.after(en[0].bb))
    ctx.check(ref_ok, "C19.R2", "reference:compiler-first-for-in-outer-scope",
              "the compiler resolves the first for clause before entering the comprehension scope",
              "the compiler's scope resolver no longer resolves the first for clause of a comprehension before "
              "enter_compr: the reference the IDE rule compares against has changed", fn=g)
    f = F.one(r"starlark_lsp::bind::comprehension$")
    bodies = [f] + [h for c in f.calls if not c.indirect for h in [F.fns.get(c.callee_uid())]
                    if h is not None and h.crate == "starlark_lsp" and h.uid != f.uid and not
                    re.search(r"bind::(expr|expr_lvalue)$", h.qpath)]
    outer_visit = False
    for c in f.calls:
        if c.bb in f.cleanup or not re.search(r"starlark_lsp::bind::[\w:]+$", c.name) or len(c.args) < 2 \
                or re.search(r"bind::expr_lvalue$", c.name):
            continue
        a0 = {o for o in origins(f, c.args[0], pass_calls=None)}
        a1 = {o for o in origins(f, c.args[1], pass_calls=None)}
        # first argument: a field of the first clause (parameter 1); second: the enclosing accumulator (parameter 3)
        if ("param", "_1") in a0 and ("param", "_3") in a1 and not any(o[0] == "call" for o in a1):
            outer_visit = True
    ctx.check(outer_visit, "C19.R2", "ide:first-iterable-in-enclosing-scope",
              "bind::comprehension visits the first iterable into the enclosing scope's bindings",
              "starlark_lsp's binder no longer visits the iterable of the first `for` clause into the enclosing scope "
              "(parameter `res`): it is resolved inside the comprehension's own scope, unlike the compiler - "
              "go-to-definition / hover on `x` in `[x for x in x]` answer with the loop variable", fn=f)


# reviewed unwrap/expect sites of the language server crate: "function:what is unwrapped"
LSP_UNWRAP_OK = {
    "Backend::default_completion_options:RwLock::read": "lock poisoning only (another thread panicked while holding it)",
    "Backend::get_ast:RwLock::read": "lock poisoning only",
    "Backend::validate:RwLock::write": "lock poisoning only",
    "Backend::did_close:RwLock::write": "lock poisoning only",
    "Backend::get_all_exported_symbols:RwLock::read": "lock poisoning only",
    "Backend::send_notification:Sender::send": "the connection's channel: closed only when the client is gone",
    "Backend::send_response:Sender::send": "the connection's channel: closed only when the client is gone",
    "server::server_with_connection:serde_json::to_value": "serialisation of the server's own capability struct",
    "server::new_notification:serde_json::to_value": "serialisation of the server's own message",
    "server::new_response:serde_json::to_value": "serialisation of the server's own message",
    "Backend::find_definition:LspModule::find_definition_at_location": "segments of a Dotted definition: built with at "
                                                                       "least two segments by find_definition_at_location",
    "docs::get_doc_item_for_def:DefParams::unpack": "parameters of a def of a module that already parsed (unpack succeeded "
                                                    "during parsing)",
}


def r4_server_unwraps(ctx, F):
    """the server answers every request without crashing: it runs one thread, so a panic in a handler ends the session.
    Every unwrap/expect in the LSP crate is a reviewed site whose value cannot be absent for any client input; an unwrap
    of something the client sent (e.g. the first element of `contentChanges`) is not."""
    from kern import reviewed
    pc = re.compile(r"(Iterator(>)?::(next|last|nth)$|IntoIterator(>)?::into_iter$|as_ref$|Deref>::deref$|::get$|"
                    r"::first$|::last$)")
    n = 0
    for f in F.fns.values():
        if f.crate != "starlark_lsp":
            continue
        for c in f.calls:
            if c.bb in f.cleanup or c.indirect or not re.search(r"(Option|Result)::<.*>::(unwrap|expect)$", c.name):
                continue
            n += 1
            os_ = origins(f, c.args[0], pass_calls=pc)
            srcs = sorted({short_fn(o[1].name) for o in os_ if o[0] == "call"}) or sorted({o[0] for o in os_})
            who = short_fn(top_fn(F, f).qpath)
            for src in srcs:
                why = reviewed(F, LSP_UNWRAP_OK, who, src)
                ctx.check(why is not None, "C19.R4", "server-unwrap:%s:%s" % (who, src), "reviewed: " + (why or ""),
                          "`%s` unwraps a value that comes from %s and is not a reviewed site: if a client message can "
                          "make it absent (an empty array, a missing field) the server thread panics and no later "
                          "request is answered" % (who, src), fn=f, line=c.line)
    ctx.floor("C19.R4", "unwrap/expect sites in the language server crate", n, 12, inventory=True)


def r5_client_positions_arith(ctx, F):
    """line / character numbers of a request are arbitrary u32 values: the server never feeds one into the
    overflow-checked `Pos + u32` (or a plain checked `+`): it saturates or clamps first"""
    n = 0
    for f in F.fns.values():
        if f.crate != "starlark_lsp":
            continue
        for c in f.calls:
            if c.bb in f.cleanup or c.indirect or not re.search(r"codemap::Pos as std::ops::(Add|Sub)<u32>>::(add|sub)$", c.name):
                continue
            n += 1
            par = [o for o in origins(f, c.args[1], pass_calls=None) if o[0] == "param"]
            ctx.check(not par, "C19.R5", "pos-plus-client-column:" + short_fn(top_fn(F, f).qpath),
                      "the offset added to a Pos does not come straight from a request parameter",
                      "`%s` adds a column taken from its parameters to a Pos with the overflow-checked `+`: a request with "
                      "character = 4294967295 panics the server (use saturating_add / clamp to the line)"
                      % short_fn(top_fn(F, f).qpath), fn=f, line=c.line)
    ctx.ok("C19.R5", "pos-arith-inspected", "%d `Pos +/- u32` uses in the LSP crate" % n)


def run(ctx):
    F = ctx.facts("core")
    if any(f.crate == "starlark_lsp" for f in F.fns.values()):
        r4_server_unwraps(ctx, F)
        r5_client_positions_arith(ctx, F)
        r2_comprehension_scope(ctx, F)
        # the server never indexes a code map with an editor-supplied line through a panicking accessor
        from rules.C05 import r5_line_accessors
        r5_line_accessors(ctx, F, rule="C19.R3", crates=("starlark_syntax", "starlark", "starlark_lsp", "starlark_bin"))
    elif getattr(ctx, "lenient", False):
        # the secondary configurations of the thorough tier (pagable, nodebug) extract the interpreter crate only
        ctx.note("C19.R2-R5 not evaluated under configuration `%s`: it does not contain the starlark_lsp crate" % ctx.config)
    else:
        ctx.bad("C19.R2", "anchor:starlark_lsp", "anchor-missing: the extraction does not contain the starlark_lsp crate")
    n = 0
    for f in F.fns.values():
        if f.crate not in ("starlark_syntax", "starlark_lsp", "starlark", "starlark_bin"):
            continue
        for c in f.calls:
            if c.bb in f.cleanup or not re.search(r"lsp_types::Position::new$", c.name) or len(c.args) < 2:
                continue
            col, conv, which = derives_from_column(f, c.args[1])
            if not col:
                continue
            n += 1
            t = top_fn(F, f)
            key = "position-from-char-column:%s:%s" % (short_fn(t.qpath), which or "column")
            ctx.check(conv, "C19.R1", key,
                      "the LSP character is computed through a UTF-16 conversion",
                      "`%s` builds an lsp_types::Position whose `character` is the internal column counted in Unicode "
                      "scalar values (ResolvedPos.column) with no UTF-16 conversion: for a line containing a character "
                      "outside the BMP before the position, the reported character is too small" % short_fn(t.qpath),
                      fn=f, line=c.line)
        for st in f.stmts:
            if st.kind.endswith("lsp_types::Position::Position") and st.bb not in f.cleanup:
                ops = st.ops[0].split(" | ")
                if len(ops) >= 2:
                    col, conv, which = derives_from_column(f, ops[1])
                    if col:
                        n += 1
                        ctx.check(conv, "C19.R1", "position-from-char-column:%s:agg" % short_fn(top_fn(F, f).qpath),
                                  "converted", "an lsp_types::Position is built from a character column without UTF-16 "
                                               "conversion", fn=f, line=st.line)
    ctx.floor("C19.R1", "LSP positions built from internal columns", n, 2)
    # the other direction: a client position (UTF-16) read and used as an internal character column
    m = 0
    for f in F.fns.values():
        if f.crate not in ("starlark_lsp", "starlark_bin"):
            continue
        reads = [st for st in f.stmts if "{lsp_types::Position::character}" in st.text() and st.bb not in f.cleanup]
        if not reads:
            continue
        m += 1
        conv = any(UTF16.search(c.name) for c in f.calls)
        t = top_fn(F, f)
        ctx.check(conv, "C19.R1", "lsp-column-used-as-char-column:" + short_fn(t.qpath),
                  "the client's UTF-16 character is converted before it is used as a column",
                  "`%s` uses lsp_types::Position.character (UTF-16 code units) as an internal column counted in "
                  "characters with no conversion: on a line with a character outside the BMP the request is resolved "
                  "at the wrong place" % short_fn(t.qpath), fn=f, line=reads[0].line)
    ctx.info["lsp_position_reads"] = m
