"""C07 - Evaluation is total and recoverable (structural clauses; DESIGN.md section 2, C07)."""
import collections
import re

from kern import (CallGraph, branch_edges, calls_by_name, calls_to, callers, origins, short_fn, top_fn)

DESCRIPTION = ("C07 clauses decided: R1 call-stack/frame state is restored on every normal path "
               "(with_call_stack, eval_module, alloca_frame) and CheapCallStack push/pop have no other callers; "
               "R2 no vtable operation recurses natively without passing a depth guard (K11); "
               "R3 interpreter errors leave run_block only through the span-attaching wrapper; "
               "R4 panicking RefCell::borrow_mut on dict/set payloads only in the unchecked accessors, and no dispatch "
               "that can reach a panicking borrow while a DictMut/SetMut is live (R4b, reviewed table); "
               "R5 no unwrap of a value type-test in natives/StarlarkValue impls outside the reviewed table; "
               "R6 bytecode-writer stack/loop counters are balanced on every path; R7 no overflow-checked negation of "
               "a value-derived signed integer.")
NOT_DECIDED = ("panics from arithmetic/index arithmetic in builtins, `as` truncations, spans lying inside the right "
               "file: runtime values")

PUSH = r"cheap_call_stack::CheapCallStack::<'v>::push$"
POP = r"cheap_call_stack::CheapCallStack::<'v>::pop$"

# vtable ops whose native recursion is outside the quantifier of C07 (host-side only), with reason
HOST_ONLY_OPS = {
    "documentation": "documentation generation is a host API, never reached from a Starlark program",
    "typechecker_ty": "static typing of host-provided values (struct/namespace fields): host/type-checker API",
}

# C07.R5 reviewed table: (function qpath regex, type-test callee regex) -> reason
UNWRAP_TABLE = {
    ("partial", "ValueTyped::new"): "keys of a **kwargs dict are strings by construction of the call",
    ("list.remove", "ListRef::from_value"): "`this` of a list method is a list (check_this in the generated wrapper)",
    ("EnumTypeGen as StarlarkValue::dir_attr", "Value::unpack_str"): "enum element names were validated as strings when the "
                                                                     "enum type was created",
    ("EnumTypeGen as StarlarkValue::export_as", "Value::unpack_str"): "same: element names are strings by construction",
    ("RecordTypeGen as StarlarkValue::invoke", "UnpackValue::unpack_value_err"): "field values come from this record "
                                                                                  "type's own parameter spec",
}


def r1_pairing(ctx, F, rule="C07.R1"):
    wcs = F.one(r"Evaluator::<'v, 'a, 'e>::with_call_stack$")
    push = calls_to(F, wcs, PUSH)
    pop = calls_to(F, wcs, POP)
    if len(push) != 1 or not pop:
        ctx.bad(rule, "with_call_stack:anchor", "anchor-missing: expected one push and a pop in with_call_stack",
                fn=wcs)
    else:
        cont, _ = branch_edges(F, wcs, [push[0].dest_local], "Continue")
        brk, _ = branch_edges(F, wcs, [push[0].dest_local], "Break")
        ok_targets = [t for (_, t) in cont]
        good = bool(ok_targets) and all(
            not (set(wcs.returns()) & wcs.reach([t], cut_blocks={c.bb for c in pop})) for t in ok_targets)
        ctx.check(good, rule, "with_call_stack:pop-on-every-path",
                  "every normal path from the Continue edge of push to return passes CheapCallStack::pop",
                  "a path from a successful push to return skips CheapCallStack::pop (frame leaked after a call)",
                  fn=wcs, line=push[0].line)
        # exactly once: no path pop -> pop
        twice = any(set(c2.bb for c2 in pop) & wcs.after(c.bb) for c in pop)
        ctx.check(not twice, rule, "with_call_stack:pop-at-most-once",
                  "no normal path pops twice", "a path pops the call stack twice", fn=wcs)
        # failed push must not pop
        bad_brk = any(set(c.bb for c in pop) & wcs.reach([t]) for (_, t) in brk)
        ctx.check(bool(brk) and not bad_brk, rule, "with_call_stack:no-pop-after-failed-push",
                  "the Break edge of push (stack overflow) returns without pop",
                  "the failed-push path pops a frame it never pushed", fn=wcs)

    em = F.one(r"starlark::eval::<impl eval::runtime::evaluator::Evaluator<'v, 'a, 'e>>::eval_module$")
    push = calls_to(F, em, PUSH)
    pop = calls_to(F, em, POP)
    if len(push) != 1 or len(pop) != 1:
        ctx.bad(rule, "eval_module:anchor", "anchor-missing: expected one push and one pop in eval_module", fn=em)
    else:
        good = em.must_pass(push[0].bb, [pop[0].bb], em.returns())
        ctx.check(good, rule, "eval_module:no-return-between-push-and-pop",
                  "no normal path from push to return avoids pop ('do NOT use ? from now on')",
                  "an early return (`?`) between call_stack.push and call_stack.pop leaves a frame on the stack",
                  fn=em, line=push[0].line)
        # module_def_info restored after pop on every path to return
        writes = [st.bb for st in em.stmts if st.lhs.endswith("{eval::runtime::evaluator::Evaluator::module_def_info}")
                  and st.bb not in em.cleanup]
        good = bool(writes) and em.must_pass(pop[0].bb - 0, writes, em.returns()) if pop[0].bb not in writes else True
        # the write sits in the block following pop: evaluate from push
        good = bool(writes) and em.must_pass(push[0].bb, writes, em.returns())
        ctx.check(good, rule, "eval_module:module_def_info-restored",
                  "module_def_info is written back on every normal path from push to return",
                  "a path from push to return does not restore module_def_info", fn=em)

    af = [f for f in F.find(r"starlark::eval::bc::frame::alloca_frame::\{closure#0\}$")]
    if len(af) != 1:
        ctx.bad(rule, "alloca_frame:anchor", "anchor-missing: alloca_frame closure not found")
    else:
        f = af[0]
        pushes = [c for c in f.calls if re.search(r"Vec::<T, A>::push$|Vec::<T>::push$", c.name)]
        pops = [c for c in f.calls if re.search(r"Vec::<T, A>::pop$|Vec::<T>::pop$", c.name)]
        cfw = [st for st in f.stmts if st.lhs.endswith("{eval::runtime::evaluator::Evaluator::current_frame}")
               and st.bb not in f.cleanup]
        if len(pushes) != 1 or not pops:
            ctx.bad(rule, "alloca_frame:anchor", "anchor-missing: frame_stack push/pop not found", fn=f)
        else:
            ctx.check(f.must_pass(pushes[0].bb, [c.bb for c in pops], f.returns()), rule,
                      "alloca_frame:frame_stack-pop", "frame_stack.pop post-dominates the push",
                      "a normal path from frame_stack.push to return skips frame_stack.pop", fn=f)
            after = [st.bb for st in cfw if st.bb in f.after(pushes[0].bb) or st.bb == pushes[0].target]
            ctx.check(bool(after) and f.must_pass(pushes[0].bb, after, f.returns()), rule,
                      "alloca_frame:current_frame-restored",
                      "current_frame is written back on every normal path after the continuation",
                      "a path after the continuation does not restore eval.current_frame", fn=f)

    # who may push/pop (a pure wrapper around push/pop whose callers are the pairing functions is fine)
    from kern import unexpected_callers
    allowed = {wcs.uid, em.uid}
    for kind, pat in (("push", PUSH), ("pop", POP)):
        bad, n = unexpected_callers(F, pat, lambda t: t.uid in allowed)
        ctx.floor(rule, "CheapCallStack::%s call sites" % kind, n, 2)
        for f, c in bad:
            t = top_fn(F, f)
            ctx.bad(rule, "who-may-%s:%s" % (kind, short_fn(t.qpath)),
                    "CheapCallStack::%s called outside with_call_stack/eval_module (`%s`): the push/pop pairing is no "
                    "longer enforced in one place" % (kind, t.qpath), fn=f, line=c.line)
        if not bad:
            ctx.ok(rule, "who-may-%s" % kind, "CheapCallStack::%s is called only from the pairing functions (%d sites)"
                   % (kind, n))


def guard_set(F):
    guards = set()
    for k, f in F.fns.items():
        gs = [c for c in f.calls if re.search(r"values::stack_guard::stack_guard$", c.name)]
        if not gs:
            continue
        # the guard must dominate every onward dispatch in that function
        onward = [c for c in f.calls if c.bb not in f.cleanup and c not in gs
                  and re.search(r"vtable::AValueDyn|StarlarkValue|ValueLike", c.name)]
        if all(any(f.dominates(g.bb, c.bb) and g.bb != c.bb for g in gs) for c in onward):
            guards.add(k)
    # closures passed as `within` to with_call_stack run after a successful (bounded) push
    wcs = F.one(r"Evaluator::<'v, 'a, 'e>::with_call_stack$")
    for f, c in callers(F, r"Evaluator::<'v, 'a, 'e>::with_call_stack$"):
        for o in origins(f, c.args[-1]):
            if o[0] == "agg" and o[1].kind.startswith("agg closure "):
                guards.add(o[1].kind.rsplit(" @", 1)[1])
            elif o[0] == "param":
                pass
    return guards, wcs


def unguarded_recursion(F, cg, guards):
    """op -> shortest unguarded cycle (list of qpaths) for every vtable op that can re-enter its own trampoline"""
    out = {}
    for op, t in sorted(cg.trampolines.items()):
        best = None
        for s in cg.G[t]:
            if s in guards:
                continue
            p = [s] if s == t else cg.path(s, [t], avoid=guards)
            if p and (best is None or len(p) < len(best)):
                best = p
        if best:
            out[op] = cg.names([t] + best)
    return out


def r2_recursion(ctx, F):
    cg = CallGraph(F, expand="value")
    ctx.info["callgraph_value"] = dict(nodes=len(F.fns), edges=cg.edges, trampolines=len(cg.trampolines),
                                       other_indirect_calls=len(cg.unmodelled_indirect))
    ctx.floor("C07.R2", "vtable trampolines", len(cg.trampolines), 58)
    guards, wcs = guard_set(F)
    ctx.floor("C07.R2", "depth-guarded functions", len(guards), 4)
    rec = unguarded_recursion(F, cg, guards)
    # positive control: equals/compare are recursive, but guarded -> with guards removed they must show up
    rec_noguard = unguarded_recursion(F, cg, set())
    for op in ("equals", "compare", "invoke"):
        ctx.check(op in rec_noguard and op not in rec, "C07.R2", "guarded:" + op,
                  "recursion through `%s` passes a depth guard on every cycle" % op,
                  "`%s` is expected to be recursive and guarded; it is %s" % (
                      op, "not recognised as recursive (call-graph model broken)" if op not in rec_noguard
                      else "recursive with an unguarded cycle"),
                  path=rec.get(op))
    skip = {"heap_copy"}  # decided under C03.R5
    for op in sorted(cg.trampolines):
        if op in ("equals", "compare", "invoke") or op in skip:
            continue
        if op in rec:
            if op in HOST_ONLY_OPS:
                ctx.note("informational: `%s` recurses natively without a guard (%s)" % (op, HOST_ONLY_OPS[op]))
                continue
            ctx.bad("C07.R2", "unguarded-recursion:" + op,
                    "vtable operation `%s` re-enters itself through user-controlled nesting with no depth guard "
                    "(native stack overflow aborts the process instead of returning an error)" % op,
                    path=rec[op])
        else:
            ctx.ok("C07.R2", "no-unguarded-recursion:" + op,
                   "no cycle through the `%s` trampoline avoids stack_guard()/with_call_stack" % op)


def r2b_guard_balance(ctx, F, rule="C07.R2"):
    """the recursion-depth counter is never left incremented without a StackGuard that restores it: on every path
    from a write of the thread-local depth (outside Drop) to return, a StackGuard value is constructed"""
    n = 0
    for f in F.fns.values():
        if f.crate != "starlark" or "values::stack_guard::" not in f.qpath:
            continue
        if re.search(r"as std::ops::Drop>::drop", top_fn(F, f).qpath):
            continue
        sets = [c for c in f.calls if re.search(r"cell::Cell::<T>::(set|replace)$", c.name) and c.bb not in f.cleanup]
        if not sets:
            continue
        guards = [st.bb for st in f.stmts if re.search(r"agg adt values::stack_guard::StackGuard::StackGuard$", st.kind)
                  and st.bb not in f.cleanup]
        for c in sets:
            n += 1
            ok = c.bb in guards or (bool(guards) and f.must_pass(c.bb, guards, f.returns()))
            # the guard may also be built in the same block, before/after the call terminator
            ok = ok or any(g == c.target for g in guards)
            # ... or before the write (then it dominates it)
            ok = ok or any(f.dominates(g, c.bb) for g in guards)
            ctx.check(ok, rule, "depth-write-yields-guard:" + short_fn(top_fn(F, f).qpath),
                      "every path from the write of the recursion depth to return constructs the StackGuard that "
                      "restores it",
                      "`%s` writes the thread-local recursion depth and can return without producing a StackGuard: "
                      "each failed comparison leaves the depth incremented, and after enough failures every "
                      "comparison on the thread fails with 'Too many recursion levels'" % short_fn(top_fn(F, f).qpath),
                      fn=f, line=c.line)
    ctx.floor(rule, "writes of the recursion depth outside Drop", n, 1)
    dr = F.find(r"<values::stack_guard::StackGuard as std::ops::Drop>::drop")
    ctx.check(bool(dr), rule, "StackGuard:has-drop", "StackGuard restores the depth in Drop",
              "StackGuard no longer has a Drop impl")


def r3_errors(ctx, F):
    rb = F.one(r"starlark::eval::bc::bytecode::run_block$")
    wrap = calls_by_name(rb, r"Bc::wrap_error_for_instr_ptr$")
    # every construction of Result::Err in run_block must take its payload from wrap_error_for_instr_ptr
    errs = [st for st in rb.stmts if st.kind == "agg adt std::result::Result::Err" and st.bb not in rb.cleanup]
    ctx.floor("C07.R3", "Err constructions in run_block", len(errs), 1)
    for st in errs:
        os_ = origins(rb, st.ops[0], pass_calls=None)
        good = bool(os_) and all(o[0] == "call" and o[1] in wrap for o in os_)
        ctx.check(good, "C07.R3", "run_block:err-wrapped",
                  "the error returned by run_block comes from Bc::wrap_error_for_instr_ptr (span of the instruction)",
                  "run_block returns an error that did not pass through Bc::wrap_error_for_instr_ptr (no span)",
                  fn=rb, line=st.line)
    # new_unknown_span inventory
    sites = callers(F, r"EvalException::new_unknown_span$|EvalException::unknown_span$")
    ALLOWED = {
        r"eval::bc::bytecode::Bc::wrap_error_for_instr_ptr": "fallback when no span is recorded for the instruction",
    }
    ctx.info["new_unknown_span_sites"] = sorted({top_fn(F, f).qpath for f, c in sites})


def r4_borrows(ctx, F):
    sites = []
    for f in F.fns.values():
        if f.crate != "starlark":
            continue
        for c in f.calls:
            if re.search(r"RefCell::<T>::borrow_mut$", c.name) and re.search(
                    r"RefCell<.*(Dict<|DictGen|SetData|SetGen)", c.full + " " + " ".join(
                        f.locals.get(x, "") for a in c.args for x in re.findall(r"_\d+", a))):
                sites.append((f, c))
    ctx.floor("C07.R4", "panicking borrow_mut on dict/set payload", len(sites), 1, inventory=True)
    for f, c in sites:
        t = top_fn(F, f)
        ctx.check(bool(re.search(r"from_value_unchecked_mut$", t.qpath)), "C07.R4", "borrow_mut:" + t.qpath,
                  "RefCell::borrow_mut on a dict/set payload only inside from_value_unchecked_mut",
                  "panicking RefCell::borrow_mut on an aliasable dict/set payload outside the unchecked accessor: "
                  "a program mutating while iterating would panic instead of getting an error", fn=f, line=c.line)


# C07.R4b reviewed table: dispatching calls made while a DictMut/SetMut (live RefMut) is held.
# key = "<where>:<callee short>:<receiver origin>" -> reason
LIVE_BORROW_TABLE = {
    "stmt::bit_or_assign:DictRef::from_value:param":
        "guarded by `lhs.ptr_eq(rhs)`: the right operand is a different object than the borrowed dict",
    "dict.update:DictRef::from_value:agg+call:map":
        "x.update(x) is rewritten to None before the borrow (ptr_eq test): `pairs` is a different object",
    "dict.update:Value::iterate:agg+call:map":
        "iterating `pairs` (a different object than `this`, see above); iterate of a container borrows only itself",
    "set.update:SetFromValue::from_value:param":
        "guarded by `other.ptr_eq(this)` early return; elements are hashed, never iterated",
    "set.update:Value::iterate:call:get":
        "guarded by `other.ptr_eq(this)` early return; iterate of a container borrows only itself",
}


def r4b_live_borrow(ctx, F):
    """no call that can reach a panicking RefCell borrow of a dict/set payload while a DictMut/SetMut is live"""
    from kern import natives
    cg = CallGraph(F, expand="value")
    PB = re.compile(r"RefCell::<values::types::(dict::value::Dict|set::value::SetData)<'_>>::(borrow|borrow_mut)$")
    src = {f.uid for f in F.fns.values() for c in f.calls if PB.search(c.full)}
    ctx.floor("C07.R4b", "functions with a panicking borrow of a dict/set payload", len(src), 6, inventory=True)
    rev = cg.rev()
    haz = set()
    st = list(src)
    while st:
        n = st.pop()
        if n in haz:
            continue
        haz.add(n)
        st.extend(rev.get(n, ()))
    nat = {}
    for n in natives(F):
        if n.impl is not None:
            ty = re.search(r"(\w+?)_METHODS_STATICS", n.builder.qpath)
            nat[n.impl.uid] = ("%s.%s" % (ty.group(1).lower(), n.name)) if ty else n.name
    ACQ = re.compile(r"(dict::refs::DictMut::<'v>::from_value|set::refs::SetMut::<'v>::from_value|"
                     r"dict::value::Dict::<'v>::from_value_unchecked_mut)$")
    MUT_TY = re.compile(r"^(values::types::dict::refs::DictMut<|values::types::set::refs::SetMut<|"
                        r"std::cell::RefMut<'_, values::types::(dict|set))")
    holders = 0
    for f in F.fns.values():
        acq = [c for c in f.calls if ACQ.search(c.name) and c.bb not in f.cleanup]
        if not acq:
            continue
        holders += 1
        mutlocals = {l for l, t in f.locals.items() if MUT_TY.search(t)}
        dropb = {b for b, t in f.terms.items() if t[0] == "drop" and t[1] in mutlocals}
        for c in f.calls:  # explicit mem::drop(me)
            if re.search(r"std::mem::drop$", c.name) and c.args and re.sub(r"^(move|copy) ", "", c.args[0]) in mutlocals:
                dropb.add(c.bb)
        where = nat.get(f.uid) or re.sub(r"<.*?>", "", top_fn(F, f).qpath).split("::", 3)[-1]
        where = where.replace("eval::compiler::", "")
        n_inst = 0
        for a in acq:
            live = f.reach(list(f.succs(a.bb)), cut_blocks=dropb)
            for c in f.calls:
                if c.bb not in live or c.bb in f.cleanup or c is a or c.indirect:
                    continue
                if c.callee_uid() not in haz:
                    continue
                short = "::".join(re.sub(r"::<[^>]*>", "", c.name).split("::")[-2:])
                os_ = origins(f, c.args[0]) if c.args else set()
                ok = sorted({o[0] if o[0] != "call" else "call:" + re.sub(r"::<[^>]*>", "", o[1].name).split("::")[-1]
                             for o in os_})
                key = "%s:%s:%s" % (where, short, "+".join(ok))
                n_inst += 1
                reason = LIVE_BORROW_TABLE.get(key)
                ctx.check(reason is not None, "C07.R4b", key,
                          "reviewed: " + (reason or ""),
                          "`%s` can reach a panicking RefCell::borrow of a dict/set payload while this function "
                          "holds a live mutable borrow (DictMut/SetMut): if the operand aliases the borrowed "
                          "container the process panics with 'already mutably borrowed' instead of returning an error"
                          % c.name, fn=f, line=c.line)
        if n_inst == 0:
            ctx.ok("C07.R4b", "holder:" + where, "no dispatching call while the mutable borrow is live")
    ctx.floor("C07.R4b", "functions acquiring DictMut/SetMut", holders, 10, inventory=True)


VALUE_SRC = re.compile(r"(unpack_param|unpack_value|unpack_named_param|UnpackValue|unpack_i32|unpack_inline_int|"
                       r"unpack_int|to_i32|to_int|InlineInt::to_i32|StarlarkInt|InlineInt)")


def r7_negation(ctx, F):
    """no overflow-checked negation (`-x`, panics for MIN in debug builds) of a signed integer that derives from a
    Starlark value / native argument"""
    n = 0
    inv = []
    for f in F.fns.values():
        if f.crate != "starlark":
            continue
        for b, t in f.terms.items():
            if t[0] != "assert" or not t[2].startswith("OverflowNeg") or b in f.cleanup:
                continue
            n += 1
            os_ = origins(f, t[2])
            src = [o for o in os_ if (o[0] == "call" and VALUE_SRC.search(o[1].name))]
            tf = top_fn(F, f)
            is_value_fn = bool(re.search(r"as values::traits::StarlarkValue<'v>>::|__starlark_invoke_impl", tf.qpath))
            if src or (is_value_fn and any(o[0] == "param" for o in os_)):
                ctx.bad("C07.R7", "negation:" + short_fn(tf.qpath),
                        "`-x` on a signed integer derived from a Starlark value (%s): for x = MIN the negation "
                        "overflows and panics in builds with overflow checks (use unsigned_abs/checked_neg)"
                        % (src[0][1].name if src else "parameter"), fn=f, line=int(t[3].split("=")[1]))
            else:
                inv.append(tf.qpath)
                ctx.ok("C07.R7", "negation-not-value-derived:" + short_fn(tf.qpath),
                       "operand is layout/profile arithmetic, not a Starlark value")
    ctx.info["overflow_neg_asserts"] = n
    ctx.floor("C07.R7", "overflow-checked negations inspected", n, 5, inventory=True)


TYPETEST = re.compile(r"(downcast_ref|unpack_str$|unpack_i32$|unpack_bool$|unpack_value(_opt|_err|_impl)?$|unpack_inline_int|"
                      r"::from_value$|unpack_int|UnpackValue|ValueTyped::<.*>::new$|unpack_frozen$|unpack_starlark_str|"
                      r"unpack_num|unpack_named_param|unpack_param|unpack_box_str|unpack_none)")


def r5_unwrap(ctx, F):
    """in natives and StarlarkValue impls no unwrap/expect consumes the result of a type test on a value unless reviewed"""
    from kern import natives
    nat = {}
    for n in natives(F):
        if n.impl is not None:
            ty = re.search(r"(\w+?)_METHODS_STATICS", n.builder.qpath)
            nat[n.impl.uid] = ("%s.%s" % (ty.group(1).lower(), n.name)) if ty else n.name
    pc = re.compile(r"(Try>::branch$|::ok$|::map$|::map_err$|as_ref$|as_mut$|FromResidual|::copied$|::cloned$)")
    n_un = 0
    for f in F.fns.values():
        if f.crate != "starlark":
            continue
        t = top_fn(F, f)
        is_nat = "__starlark_invoke_impl" in t.qpath or re.search(r"as values::traits::StarlarkValue<'v>>::", t.qpath)
        if not is_nat:
            continue
        for c in f.calls:
            if c.bb in f.cleanup or not re.search(r"(Option|Result)::<.*>::(unwrap|expect|unwrap_unchecked)$", c.name):
                continue
            n_un += 1
            tt = sorted({short_fn(o[1].name) for o in origins(f, c.args[0], pass_calls=pc)
                         if o[0] == "call" and TYPETEST.search(o[1].name)})
            if not tt:
                continue
            where = nat.get(t.uid) or short_fn(t.qpath)
            for x in tt:
                reason = UNWRAP_TABLE.get((where, x))
                ctx.check(reason is not None, "C07.R5", "unwrap-of-type-test:%s:%s" % (where, x),
                          "reviewed: " + (reason or ""),
                          "`%s` unwraps the result of the type test `%s` on a Starlark value: for a value of another "
                          "type the evaluation panics instead of returning an error" % (where, x), fn=f, line=c.line)
    ctx.floor("C07.R5", "unwrap/expect calls in natives and StarlarkValue impls", n_un, 24, inventory=True)


INDEX_SRC_OK = re.compile(r"^(index::convert_index|SmallMap::get_index_of_hashed|const|CharIndex as Sub::sub|"
                          r"SmallMap::get_index_of|index::convert_slice_indices)$")


def r8_indexing(ctx, F):
    """direct slice indexing (`a[i]`, which panics when out of range) in natives and StarlarkValue impls uses an index
    produced by the validating conversion (convert_index), a successful lookup, or a constant"""
    n = 0
    for f in F.fns.values():
        if f.crate != "starlark":
            continue
        t = top_fn(F, f)
        if not ("__starlark_invoke_impl" in t.qpath or re.search(r"as values::traits::StarlarkValue<'v>>::", t.qpath)):
            continue
        for b, term in f.terms.items():
            if term[0] != "assert" or not term[2].startswith("BoundsCheck") or b in f.cleanup:
                continue
            m = re.search(r"index: (copy|move) (_\d+)", term[2])
            if not m:
                continue
            n += 1
            src = sorted({short_fn(o[1].name) if o[0] == "call" else o[0] for o in origins(f, m.group(2))})
            bad = [x for x in src if not INDEX_SRC_OK.match(x)]
            ctx.check(not bad, "C07.R8", "index-source:%s:%s" % (short_fn(t.qpath), "+".join(src)),
                      "the index comes from a validating conversion / lookup / constant",
                      "`%s` indexes a slice with a value from %s: an out-of-range index panics instead of returning "
                      "an error (use convert_index / get)" % (short_fn(t.qpath), bad), fn=f,
                      line=int(term[3].split("=")[1]))
    ctx.floor("C07.R8", "direct slice indexing in value-facing bodies", n, 7, inventory=True)


SLICE_CALL = re.compile(r"ops::Index(Mut)?<.*> for (str|\[T\])>::index(_mut)?$|"
                        r"Vec<T, A> as std::ops::Index(Mut)?<I>>::index(_mut)?$|String as std::ops::Index(Mut)?<.*>>::index(_mut)?$")
SLICE_PASS = re.compile(r"(Try>::branch$|Option::<.*>::(unwrap\w*|expect|map|and_then|ok_or\w*)$|"
                        r"Result::<.*>::(unwrap\w*|expect|ok|map)$|as_ref$|cmp::min$|cmp::max$|Ord>::(min|max)$|FromResidual)")
# where a slice bound may come from without review: std functions that return a position inside (or the length of) a
# buffer, the validated index conversions of values/index.rs, and constants
BOUND_SRC_OK = re.compile(r"^(const|str::(find|rfind|len|char_indices)|\[T\]::len|slice::len|Vec::len|String::len|"
                          r"char::len_utf8|Utf8Error::valid_up_to|mem::size_of|Enumerate as Iterator::next|"
                          r"\w+ as Iterator::position|CharIndices as Iterator::next|index::convert_slice_indices|"
                          r"index::convert_index|agg:.*)$")
SLICE_REVIEWED = {
    # (function, bound source) -> reason
}


def r8b_slicing(ctx, F):
    """range slicing (`x[a..b]`, `x[a..]`, `x[..b]`: panics when a bound is out of range or not on a char boundary) in
    value-facing code takes its bounds only from position-producing std functions, the validated index conversions,
    or constants"""
    n = 0
    for f in F.fns.values():
        if f.crate != "starlark" or not re.search(r"src/values/types/|src/values/index|src/stdlib/", f.span):
            continue
        for c in f.calls:
            if c.bb in f.cleanup or c.indirect or not SLICE_CALL.search(c.name) or "Range" not in c.full:
                continue
            n += 1
            src = set()
            for o in origins(f, c.args[1], pass_calls=SLICE_PASS):
                if o[0] == "agg":
                    for op in " | ".join(o[1].ops).split(" | "):
                        for o2 in origins(f, op, pass_calls=SLICE_PASS):
                            src.add(short_fn(o2[1].name) if o2[0] == "call" else
                                    (o2[0] if o2[0] != "agg" else "agg:" + o2[1].kind.split()[-1]))
                else:
                    src.add(short_fn(o[1].name) if o[0] == "call" else o[0])
            t = short_fn(top_fn(F, f).qpath)
            bad = sorted(x for x in src if not BOUND_SRC_OK.match(x) and (t, x) not in SLICE_REVIEWED)
            kind = re.search(r"Range\w*", c.full).group(0)
            ctx.check(not bad, "C07.R8", "slice-bounds:%s:%s:%s" % (t, kind, "+".join(sorted(src))),
                      "slice bounds come from position-producing std functions / validated conversions / constants",
                      "`%s` slices a buffer (`%s`) with a bound computed by %s: nothing ties that bound to the buffer's "
                      "length (or to a char boundary), so an unusual value panics instead of returning an error; clamp "
                      "with `get(..)` or derive the bound from the buffer" % (t, kind, bad), fn=f, line=c.line)
    ctx.floor("C07.R8", "range-slicing sites in value-facing code", n, 15, inventory=True)


def r6_writer(ctx, F):
    for name in ("alloc_slot", "alloc_slots", "alloc_slots_for_exprs"):
        f = F.one(r"starlark::eval::bc::writer::BcWriter::<'f>::%s$" % name)
        bodies = [f]
        adds = calls_to(F, f, r"BcWriter::<'f>::stack_add$")
        subs = calls_to(F, f, r"BcWriter::<'f>::stack_sub$")
        if not adds or not subs:
            ctx.bad("C07.R6", name + ":anchor", "anchor-missing: stack_add/stack_sub not found in " + name, fn=f)
            continue
        good = all(f.must_pass(a.bb, [s.bb for s in subs], f.returns()) for a in adds)
        ctx.check(good, "C07.R6", name + ":stack_sub-after-stack_add",
                  "stack_sub post-dominates every stack_add on normal paths",
                  "a path adds to the bytecode stack counter without the matching stack_sub "
                  "(max_stack_size under/over-counts: frame too small for unchecked slot access)", fn=f)
    wf = F.find(r"starlark::eval::bc::writer::BcWriter::<'f>::write_for::\{closure#0\}$")
    if len(wf) != 1:
        ctx.bad("C07.R6", "write_for:anchor", "anchor-missing: write_for closure")
        return
    f = wf[0]
    pushes = [c for c in f.calls if re.search(r"Vec::<T, A>::push$|Vec::<T>::push$", c.name)
              and "BcWriterForLoop" in c.full]
    pops = [c for c in f.calls if re.search(r"Vec::<T, A>::pop$|Vec::<T>::pop$", c.name)
            and "BcWriterForLoop" in c.full]
    if len(pushes) != 1 or not pops:
        ctx.bad("C07.R6", "write_for:anchor", "anchor-missing: for_loops push/pop", fn=f)
    else:
        ctx.check(f.must_pass(pushes[0].bb, [c.bb for c in pops], f.returns()), "C07.R6", "write_for:for_loops-pop",
                  "for_loops.pop post-dominates the push", "a path leaves write_for with the loop still open", fn=f)


# R9 reviewed sites: overflow-checked signed arithmetic that the interval analysis cannot prove exact.
# key "<function>:<Op>:<type>" -> (number of such operations reviewed, why none can overflow)
SIGNED_ARITH_TABLE = {
    "implementation::convert_frame:Add:i64": (4, "DAP frame conversion: 0-based line/column of a resolved span (bounded by "
                                                 "the file size, a u32 position) plus one"),
    "native enumerate:Add:i64": (1, "iteration count (usize widened to i64; bounded by the number of elements produced, far "
                                    "below 2^62) plus an i32 start"),
    "index::convert_index_aux:Add:i32": (1, "`len + x` is evaluated only when x < 0 and len >= 0 (a container length)"),
    "index::convert_slice_indices:Sub:i32": (1, "`len - 1` with len >= 0 (a container length)"),
    "index::convert_slice_indices:Add:i32": (2, "`len + clamp` with len >= 0 and clamp in {-1, 0}"),
    "index::apply_slice:Add:i32": (2, "start/stop were clamped to [-1, len-1] by convert_slice_indices before `+ 1`"),
    "InlineInt::min_max_for_bits:Sub:i32": (1, "const fn evaluated at compile time on the fixed bit count"),
    "StarlarkIntRef::floor_div_small_small:Mul:i32": (1, "product of two InlineInt::signum results (each in -1..=1)"),
    "StarlarkIntRef::floor_div_big_big:Mul:i32": (1, "product of two signum_big results (each in -1..=1)"),
    "native list.pop:Sub:i32": (1, "`len as i32 - 1` with len a list length (non-negative)"),
}


def r9_signed_arith(ctx, F):
    """every overflow-checked +, -, * on a signed integer in the interpreter crate is either proven exact by the
    interval analysis (operands widened from a narrower type, constants, std ranges) or a reviewed site"""
    from kern import checked_arith_sites, natives
    nat = {}
    for n in natives(F):
        if n.impl is not None:
            ty = re.search(r"(\w+?)_METHODS_STATICS", n.builder.qpath)
            nat[n.impl.uid] = "native " + (("%s.%s" % (ty.group(1).lower(), n.name)) if ty else n.name)
    seen = collections.Counter()
    first = {}
    n_sites = n_proven = 0
    for f in F.fns.values():
        # the interpreter library only: the `starlark` BINARY of starlark_bin (full configuration) has the same crate name
        if f.crate != "starlark" or not f.span.startswith("starlark/src/"):
            continue
        sites = [x for x in checked_arith_sites(f) if x[2] in ("i8", "i16", "i32", "i64", "isize", "i128")]
        if not sites:
            continue
        t = top_fn(F, f)
        where = nat.get(t.uid) or short_fn(t.qpath)
        for st, op, ty, r, ok in sites:
            n_sites += 1
            if ok:
                n_proven += 1
                continue
            k = "%s:%s:%s" % (where, op, ty)
            seen[k] += 1
            first.setdefault(k, (f, st))
    for k, cnt in sorted(seen.items()):
        f, st = first[k]
        from kern import reviewed
        ent = reviewed(F, SIGNED_ARITH_TABLE, k.rsplit(":", 2)[0], k.split(":", 1)[1] if False else ":".join(k.rsplit(":", 2)[1:]),
                       extra_live=set(nat.values()))
        ctx.check(ent is not None and cnt <= ent[0], "C07.R9", "signed-arith:" + k,
                  "reviewed: " + (ent[1] if ent else ""),
                  "`%s` performs %d overflow-checked `%s` on %s whose operands are not provably small (%s reviewed): with "
                  "an operand taken from a Starlark integer this panics (`attempt to %s with overflow`) in builds with "
                  "overflow checks and wraps silently otherwise; widen before the operation or use checked_*"
                  % (k.rsplit(":", 2)[0], cnt, op_name(k), k.rsplit(":", 1)[1], ent[0] if ent else "none",
                     {"Add": "add", "Sub": "subtract", "Mul": "multiply"}[k.rsplit(":", 2)[1]]), fn=f, line=st.line)
    ctx.info["signed_checked_arith"] = dict(sites=n_sites, proven_exact_by_intervals=n_proven,
                                            reviewed=sum(seen.values()))
    ctx.floor("C07.R9", "overflow-checked signed arithmetic sites", n_sites, 21, inventory=True)
    ctx.floor("C07.R9", "sites proven exact by the interval analysis", n_proven, 6, inventory=True)


def _panicky_index(f):
    out = [c for c in f.calls if c.bb not in f.cleanup and re.search(r"ops::Index(Mut)?<.*>>::index(_mut)?$", c.name)]
    out += [t for b, t in f.terms.items() if t[0] == "assert" and t[2].startswith("BoundsCheck") and b not in f.cleanup]
    return out


def r10_module_slots(ctx, F):
    """a module stays usable after a failed evaluation: scope resolution registers names (slot ids) before the slots
    exist, so either reading a slot by id is total, or every exit of eval_module after name registration allocates
    the slots; writes through Module::set allocate the slot first"""
    ev = F.one(r"starlark::eval::<impl eval::runtime::evaluator::Evaluator<'v, 'a, 'e>>::eval_module$")
    chk = calls_by_name(ev, r"ModuleScopes::<'f>::check_module_err$|ModuleScopes::check_module_err$")
    ens = calls_by_name(ev, r"MutableSlots::<'v>::ensure_slots$")
    if not chk or not ens:
        ctx.bad("C07.R10", "eval_module:anchor", "anchor-missing: check_module_err / ensure_slots in eval_module", fn=ev)
        return
    all_exits_allocate = all(ev.must_pass(c.bb, [e.bb for e in ens], ev.returns()) for c in chk)
    for pat, nm in ((r"environment::slots::MutableSlots::<'v>::get_slot$", "MutableSlots::get_slot"),
                    (r"environment::slots::FrozenSlots::get_slot$", "FrozenSlots::get_slot")):
        g = F.one(pat)
        pk = _panicky_index(g)
        ctx.check(not pk or all_exits_allocate, "C07.R10", "slot-read-total:" + nm,
                  "reading a slot by id cannot panic (checked `get`)" if not pk else
                  "every exit of eval_module allocates the slots of the names it registered",
                  "`%s` indexes the slot vector unchecked, and eval_module returns the scope-resolution error before "
                  "ensure_slots: names registered by the failed evaluation have ids beyond the vector, so a later "
                  "Module::get(name) / FrozenModule::get(name) panics (index out of bounds) instead of returning None"
                  % nm, fn=g)
    for nm in ("set", "set_private"):
        f = F.one(r"environment::modules::Module::<'v>::%s$" % nm)
        sets = calls_by_name(f, r"MutableSlots::<'v>::set_slot$")
        en = calls_by_name(f, r"MutableSlots::<'v>::ensure_slots?$")
        ctx.check(bool(sets) and bool(en) and all(any(f.dominates(e.bb, s.bb) for e in en) for s in sets),
                  "C07.R10", "slot-write-allocates:Module::" + nm, "ensure_slot dominates set_slot",
                  "Module::%s writes a slot without allocating it first" % nm, fn=f)


def r12_stack_top(ctx, F):
    """CheapCallStack keeps its frames in a preallocated array and a `count`: the live frames are stack[..count]. No
    accessor may take the top (or iterate the frames) through the whole array - `stack.last()` is the last *slot*,
    a default or stale frame (call_stack_top_frame / the debugger's top frame then name the wrong function)."""
    n = 0
    for f in F.fns.values():
        if f.crate != "starlark" or "cheap_call_stack::CheapCallStack" not in f.qpath:
            continue
        for c in f.calls:
            if c.bb in f.cleanup or c.indirect or not re.search(r"slice::<impl \[T\]>::(last|last_mut|first|first_mut)$|"
                                                                r"\[T\]>::(last|last_mut)$", c.name):
                continue
            # receiver derives from the whole `stack` field (not from a sub-slice taken with `count`)
            seen, work, whole, sliced = set(), re.findall(r"_\d+", c.args[0]), False, False
            while work:
                l = work.pop()
                if l in seen:
                    continue
                seen.add(l)
                for st in f.stmts:
                    if st.lhs_local == l:
                        if "CheapCallStack::stack}" in st.text():
                            whole = True
                        work += re.findall(r"_\d+", st.text())
                for d in f.calls:
                    if d.dest_local == l:
                        if re.search(r"ops::Index(Mut)?<.*>>::index(_mut)?$", d.name) and "Range" in d.full:
                            sliced = True
                        else:
                            work += [x for a in d.args for x in re.findall(r"_\d+", a)]
            if whole and not sliced:
                n += 1
                ctx.bad("C07.R12", "stack-top-through-whole-array:" + short_fn(f.qpath),
                        "`%s` takes `%s()` of the whole preallocated frame array: the live frames end at `count`, so "
                        "this is a default or stale frame, not the top of the call stack" % (
                            short_fn(f.qpath), c.name.split("::")[-1]), fn=f, line=c.line)
    # `stack[1..count]` (skip the module frame) panics while nothing is being evaluated (count == 0): frames are taken
    # with the checked `get(1..count)`
    for f in F.fns.values():
        if f.crate != "starlark" or "cheap_call_stack::CheapCallStack" not in f.qpath:
            continue
        for c in f.calls:
            if c.bb in f.cleanup or c.indirect or not (SLICE_CALL.search(c.name) or re.search(
                    r"ops::Index(Mut)?<.*>>::index(_mut)?$", c.name)) or "Range<usize>" not in c.full or "RangeTo" in c.full:
                continue
            start_const = None
            for o in origins(f, c.args[1], pass_calls=None):
                if o[0] == "agg":
                    first = " | ".join(o[1].ops).split(" | ")[0]
                    m = re.search(r"const Scalar\(0x([0-9a-f]+)\): usize", first)
                    if m:
                        start_const = int(m.group(1), 16)
            if start_const:
                ctx.bad("C07.R12", "frames-sliced-unchecked:" + short_fn(f.qpath),
                        "`%s` takes `stack[%d..count]` with the panicking index: when no evaluation is running count is 0 "
                        "and the public accessor (Evaluator::call_stack) panics" % (short_fn(f.qpath), start_const),
                        fn=f, line=c.line)
    acc = [f for f in F.fns.values() if f.crate == "starlark" and re.search(
        r"cheap_call_stack::CheapCallStack::<'v>::(top_frame|top_location|top_nth_function_opt)$", f.qpath)]
    uses_count = [f for f in acc if any("CheapCallStack::count}" in st.text() for st in f.stmts)]
    ctx.check(len(acc) == 3 and len(uses_count) == 3, "C07.R12", "top-accessors-use-count",
              "top_frame / top_location / top_nth_function_opt locate the top through `count`",
              "a top-of-stack accessor of CheapCallStack does not read `count` (%s)"
              % sorted(short_fn(f.qpath) for f in acc if f not in uses_count))


def r14_format_parser_ascii_steps(ctx, F):
    """the `str.format` template parser (also run at compile time for constant templates) advances its byte cursor by a
    constant (`eat(1)`, `eat(2)`) only where it has just established what those bytes are: after matching an ASCII byte
    of the template or after a successful `starts_with` test. A constant step past an unexamined character slices the
    template in the middle of a multi-byte character (or past its end) and panics."""
    from kern import bool_call_edges, switch_info
    f = F.one(r"dot_format_parser::FormatParser::<'a>::next$")
    cut = set()
    for c in f.calls:
        if c.bb not in f.cleanup and re.search(r"starts_with$", c.name):
            cut |= set(bool_call_edges(F, f, c, "true"))
    for b in f.terms:
        info = switch_info(f, b)
        if info and info.get("kind") == "int":
            for v, t in info["targets"].items():
                if isinstance(v, int) and 0 <= v < 128:
                    cut.add((b, t))
    # an examination justifies the step that follows it, not one after another `eat` has already consumed what was
    # examined: restart the search behind every eat
    eats = [c for c in f.calls if c.bb not in f.cleanup and re.search(r"StringView::<'a>::eat$", c.name)]
    starts = [0] + [b for c in eats for b in f.succs(c.bb)]
    unguarded = f.reach(starts, cut_edges=cut)
    n = 0
    for c in f.calls:
        if c.bb in f.cleanup or not re.search(r"StringView::<'a>::eat$", c.name) or not c.args[1].startswith("const"):
            continue
        n += 1
        ctx.check(c.bb not in unguarded, "C07.R14", "format-parser-constant-step@%d" % n,
                  "the constant step follows a matched ASCII byte / a successful starts_with",
                  "FormatParser::next advances by a constant number of bytes on a path on which it has not examined those "
                  "bytes: with a non-ASCII character (or the end of the template) there, `\"{!\u00e9}\".format(1)` "
                  "panics while slicing the template instead of reporting an invalid conversion", fn=f, line=c.line)
    ctx.floor("C07.R14", "constant steps of the format template parser", n, 3)


def op_name(k):
    return {"Add": "+", "Sub": "-", "Mul": "*"}[k.rsplit(":", 2)[1]]


def run(ctx):
    F = ctx.facts("core")
    r1_pairing(ctx, F)
    r2_recursion(ctx, F)
    r2b_guard_balance(ctx, F)
    r3_errors(ctx, F)
    r4_borrows(ctx, F)
    r4b_live_borrow(ctx, F)
    r5_unwrap(ctx, F)
    r6_writer(ctx, F)
    r7_negation(ctx, F)
    r8_indexing(ctx, F)
    r8b_slicing(ctx, F)
    r9_signed_arith(ctx, F)
    r10_module_slots(ctx, F)
    r12_stack_top(ctx, F)
    r14_format_parser_ascii_steps(ctx, F)
    # (MIN, -1) never reaches the panicking small-int % and / (shared with C10.R5)
    from rules.C10 import r5_small_remainder_guarded
    r5_small_remainder_guarded(ctx, F, rule="C07.R13")
