"""C03 - garbage collection is invisible and never loses a live value (structural clauses)."""
import re

from kern import (CallGraph, ValueBearing, all_aggregates, bool_call_edges, calls_by_name, callers, field_reads_of, field_uses_of, short_fn,
                  origins, top_fn)

DESCRIPTION = ("C03 clauses decided: R1 every Trace impl (derived or manual) visits every field whose type can hold an "
               "unfrozen Value (K3 coverage on the MIR of the final trace body); R2 the evaluator/module root set "
               "visits every value-bearing field; R3 the collection call chain is closed and GC points are emitted "
               "only for top-level statements (allow_gc constants); R4 the copy protocol (forward before tracing the "
               "payload, fill after reserve, old arena dropped after the trace); R5 no unguarded native recursion "
               "through heap_copy; R6 re-entrant evaluation disables GC first.")
NOT_DECIDED = ("per-element loop bounds (copying len-1 elements), arena bookkeeping, that disable_gc is honoured for "
               "user-stashed values: value-level")

TRACE = r"values::trace::Trace<'v>$"


def trace_body(F, impl):
    c = [f for f in F.fns.values() if f.crate == impl["crate"] and f.trait == impl["trait"]
         and f.selfty == impl["selfty"] and f.name == "trace" and f.kind != "Closure"]
    return c[0] if len(c) == 1 else None


def coverage(ctx, F, vb, rule, key, fn, adt, traced_params=(), what="trace", selfty=None):
    reads = field_uses_of(F, fn, adt.path, "_1", depth=3)
    from kern import substitute_generics
    req = [fd for fd in adt.fields if vb.ty(substitute_generics(adt, selfty, fd["ty"]) if selfty else fd["ty"],
                                           adt.crate, traced_params)]
    for fd in req:
        k = (fd["variant"] + "." + fd["name"]) if adt.kind == "Enum" else fd["name"]
        ctx.check(k in reads, rule, "%s:%s" % (key, k),
                  "value-bearing field is visited by %s" % what,
                  "%s of %s never touches field `%s` (type %s), which can hold an unfrozen Value: after a collection "
                  "it would still point into the old (freed) arena" % (what, adt.path, k, fd["ty"][:80]), fn=fn)
    return len(req)


def r1_trace(ctx, F, vb):
    impls = [i for i in F.impls if re.search(TRACE, i["trait"]) and i["crate"] in ("starlark", "starlark_map")]
    ctx.floor("C03.R1", "Trace impls", len(impls), 95, inventory=True)
    n_adts = 0
    n_fields = 0
    for i in impls:
        if i["selfadt"] == "-":
            continue
        adt = vb.adt_for(i["crate"], i["selfadt"])
        if adt is None:
            continue  # impl for a foreign type (Vec, Option, ...): nothing to cover
        f = trace_body(F, i)
        if f is None:
            ctx.bad("C03.R1", "body:" + i["selfty"], "anchor-missing: no unique trace body for impl %s" % i["path"])
            continue
        traced = [p.split(":")[0].strip() for p in i["preds"] if re.search(r":\s*(starlark::)?values::trace::Trace<", p)]
        n_adts += 1
        n = coverage(ctx, F, vb, "C03.R1", adt.path, f, adt, traced, selfty=i["selfty"])
        n_fields += n
        if n == 0:
            ctx.ok("C03.R1", adt.path + ":(no value-bearing field)")
    ctx.floor("C03.R1", "local ADTs with a Trace impl", n_adts, 54, inventory=True)
    ctx.info["trace_required_fields"] = n_fields
    # #[trace(unsafe_ignore)] leaves an empty trace for a value-bearing field: covered by the rule above.


def r1b_dead_temporaries(ctx, F):
    """A trace call relocates the values inside its receiver. If the receiver is a by-value copy on the stack
    (not storage reached through self) the relocated pointers must be written back: the temporary has to be used
    after the call. A traced temporary that is dead afterwards means the original still points into the old arena."""
    n = 0
    for f in F.fns.values():
        if f.crate not in ("starlark", "starlark_map"):
            continue
        for c in f.calls:
            if c.bb in f.cleanup or c.indirect or not c.args:
                continue
            if not re.search(r"Trace<'v>>::trace$|values::trace::Trace::trace$", c.name):
                continue
            r = re.sub(r"^(move|copy) ", "", c.args[0])
            ds = [st for st in f.stmts if st.lhs == r]
            if not ds or ds[0].kind != "refmut":
                continue
            place = ds[0].ops[0]
            base = place.split(".", 1)[0]
            ty = f.locals.get(base, "")
            if ".*" in place or ty.startswith("&") or ty.startswith("*"):
                continue  # storage reached through a reference: traced in place
            if 0 < int(base[1:]) <= f.nargs:
                continue  # by-value parameter: the caller's business
            n += 1
            after = f.after(c.bb)
            # the relocated copy (or a plain copy of it) must be STORED again: assigned into a place reached through a
            # reference / a field, returned, or handed whole to a storing call (set_*, push, insert, ...). Merely
            # reading it (ptr_value(), repr, a comparison) does not write the relocation back.
            alias = {base}
            changed = True
            while changed:
                changed = False
                for st in f.stmts:
                    if st.bb not in after or st.lhs in alias or "." in st.lhs or not st.ops:
                        continue
                    if st.kind == "use" and re.match(r"(copy|move) (_\d+)$", st.ops[0]) and st.ops[0].split()[1] in alias:
                        alias.add(st.lhs)
                        changed = True
                    elif st.kind.startswith("agg ") and any(
                            re.match(r"(copy|move) (_\d+)$", o.strip()) and o.split()[1] in alias
                            for o in " | ".join(st.ops).split(" | ")):
                        # wrapped whole into a value that is stored (`cell.set(Some(v))`)
                        alias.add(st.lhs)
                        changed = True
            stored = any(st.bb in after and ("." in st.lhs) and any(a in re.findall(r"_\d+", " ".join(st.ops)) for a in alias)
                         for st in f.stmts)
            stored = stored or any(
                c2.bb in after and c2 is not c and re.search(
                    r"::(set\w*|push\w*|insert\w*|store\w*|replace\w*|write\w*|fill\w*|put\w*|extend\w*|assign\w*)$", c2.name)
                and any(re.match(r"(move|copy) (_\d+)$", a) and a.split()[1] in alias for a in c2.args)
                for c2 in f.calls)
            used = stored or "_0" in alias
            tf = top_fn(F, f)
            ctx.check(used, "C03.R1b", "traced-temporary:" + re.sub(r"::<[^>]*>", "", tf.qpath),
                      "the traced stack copy is written back / used after the trace call",
                      "trace is invoked on a by-value temporary (%s: %s) that is never used afterwards: the relocated "
                      "value is discarded and the original storage keeps pointing into the old arena"
                      % (base, ty[:60]), fn=f, line=c.line)
    ctx.info["trace_calls_on_stack_copies"] = n
    ctx.floor("C03.R1b", "trace calls on stack copies", n, 1, inventory=True)


EARLY_EXIT = re.compile(r"Iterator::(take_while|take|skip|skip_while|step_by|find|find_map|any|all|position|nth|"
                        r"map_while|try_for_each|try_fold)$")


def r1c_all_elements(ctx, F):
    """tracing visits every element of a collection: no early-terminating / skipping iterator adaptor in a trace body"""
    n = 0
    bodies = [f for f in F.fns.values() if f.crate in ("starlark", "starlark_map") and (
        re.search(r"as values::trace::Trace<'v>>::trace$", top_fn(F, f).qpath)
        or re.search(r"evaluator::Evaluator::<'v, 'a, 'e>::trace$|environment::modules::Module::<'v>::trace$|"
                     r"heap_type::Heap::<'v>::trace_interner$", top_fn(F, f).qpath))]
    ctx.floor("C03.R1c", "trace bodies (incl. closures)", len(bodies), 95, inventory=True)
    for f in bodies:
        for c in f.calls:
            if c.bb in f.cleanup or c.indirect:
                continue
            if EARLY_EXIT.search(c.name):
                n += 1
                ctx.bad("C03.R1c", "early-exit:%s:%s" % (short_fn(top_fn(F, f).qpath), c.name.split("::")[-1]),
                        "`%s` uses the iterator adaptor `%s` while tracing: elements after the cut-off (or skipped "
                        "ones) are not relocated and keep pointing into the old arena"
                        % (short_fn(top_fn(F, f).qpath), c.name.split("::")[-1]), fn=f, line=c.line)
    if n == 0:
        ctx.ok("C03.R1c", "no-early-exit-adaptors", "%d trace bodies inspected" % len(bodies))


def r2_roots(ctx, F, vb):
    ev = F.one(r"starlark::eval::runtime::evaluator::Evaluator::<'v, 'a, 'e>::trace$")
    adt = F.adt(r"^starlark::eval::runtime::evaluator::Evaluator$")
    n = coverage(ctx, F, vb, "C03.R2", "Evaluator", ev, adt, what="Evaluator::trace (GC root set)")
    ctx.floor("C03.R2", "value-bearing Evaluator fields", n, 5)
    mt = F.one(r"starlark::environment::modules::Module::<'v>::trace$")
    madt = F.adt(r"^starlark::environment::modules::Module$")
    n = coverage(ctx, F, vb, "C03.R2", "Module", mt, madt, what="Module::trace (GC root set)")
    ctx.floor("C03.R2", "value-bearing Module fields", n, 3)
    # Evaluator::garbage_collect hands Evaluator::trace to the heap
    gc = F.one(r"evaluator::Evaluator::<'v, 'a, 'e>::garbage_collect$")
    cl = F.closures_of(gc)
    ok = any(c.callee_uid() == ev.uid for g in cl for c in g.calls if not c.indirect)
    ctx.check(ok, "C03.R2", "garbage_collect:traces-evaluator",
              "the closure given to Heap::garbage_collect calls Evaluator::trace",
              "Evaluator::garbage_collect no longer traces the evaluator inside the collection callback", fn=gc)


def r3_points(ctx, F):
    chain = [
        (r"heap_type::Heap::<'v>::garbage_collect_internal$", [r"heap_type::Heap::<'v>::garbage_collect$"]),
        (r"heap_type::Heap::<'v>::garbage_collect$", [r"evaluator::Evaluator::<'v, 'a, 'e>::garbage_collect$"]),
        (r"evaluator::Evaluator::<'v, 'a, 'e>::garbage_collect$", [r"eval::compiler::stmt::possible_gc$"]),
        (r"eval::compiler::stmt::possible_gc$",
         [r"<eval::bc::instr_impl::InstrPossibleGcImpl as eval::bc::instr_impl::InstrNoFlowImpl>::run_with_args$"]),
        (r"heap_type::Heap::<'v>::allow_gc$", [r"environment::modules::Module::<'v>::with_temp_heap(_async)?$"]),
    ]
    for callee, allowed in chain:
        tgt = F.one(callee)
        sites = [(f, c) for f in F.fns.values() for c in f.calls if not c.indirect and c.callee_uid() == tgt.uid]
        ctx.floor("C03.R3", "callers of " + tgt.name, len(sites), 1)
        for f, c in sites:
            t = top_fn(F, f)
            ctx.check(any(re.search(a, t.qpath) for a in allowed), "C03.R3", "who-may-call:%s<-%s" % (tgt.name, t.qpath),
                      "%s is called only from its designated caller" % tgt.name,
                      "`%s` is called from `%s`: a collection can now start at a point where native frames / "
                      "bytecode temporaries hold untraced values" % (tgt.qpath, t.qpath), fn=f, line=c.line)
    # possible_gc honours disable_gc and the threshold
    pg = F.one(r"eval::compiler::stmt::possible_gc$")
    gcs = calls_by_name(pg, r"Evaluator::<'v, 'a, 'e>::garbage_collect$")
    rd = [st for st in pg.stmts if "{eval::runtime::evaluator::Evaluator::disable_gc}" in st.text()]
    ok = False
    if gcs and rd:
        # the garbage_collect call must not be reachable when disable_gc is true: the switch on the flag
        flag = {st.lhs_local for st in rd}
        from kern import branch_edges, forward_locals
        te, _ = branch_edges(F, pg, list(flag), "true")
        # `!disable_gc` is a Not -> handle both polarities by requiring that cutting one side removes the call
        sw = [b for b in pg.terms if pg.switch(b) and any(x in forward_locals(pg, list(flag))
                                                           for x in re.findall(r"_\d+", pg.switch(b)[0]))]
        for b in sw:
            outs = list(pg.succs(b))
            reach_each = [gcs[0].bb in pg.reach([o]) for o in outs]
            if any(reach_each) and not all(reach_each):
                ok = True
    ctx.check(ok, "C03.R3", "possible_gc:honours-disable_gc",
              "garbage_collect is reachable from only one side of the branch on disable_gc",
              "possible_gc no longer consults eval.disable_gc before collecting", fn=pg)

    # PossibleGc statement construction
    cons = all_aggregates(F, r"eval::compiler::stmt::StmtCompiled::PossibleGc$")
    ctx.floor("C03.R3", "StmtCompiled::PossibleGc constructions", len(cons), 2)
    stmt_fn = F.one(r"eval::compiler::stmt::<impl eval::compiler::Compiler<'_, '_, '_, '_>>::stmt$")
    for f, st in cons:
        t = top_fn(F, f)
        if t.uid == stmt_fn.uid and f.uid == stmt_fn.uid:
            # dominated by the true edge of the allow_gc parameter (param _3)
            from kern import branch_edges
            te, _ = branch_edges(F, f, ["_3"], "true")
            good = bool(te) and st.bb not in f.reach(0, cut_edges=te)
            ctx.check(good, "C03.R3", "PossibleGc:constructed-under-allow_gc",
                      "PossibleGc is emitted only on the true edge of the allow_gc parameter",
                      "Compiler::stmt emits a GC point without testing allow_gc (collection inside a def/for body, "
                      "where the bytecode stack and native frames hold untraced values)", fn=f, line=st.line)
        else:
            copy_ok = re.search(r"as std::clone::Clone>::clone$|StarlarkDeserialize>::starlark_deserialize$", t.qpath)
            ctx.check(bool(copy_ok), "C03.R3", "PossibleGc:constructed-in:" + t.qpath,
                      "copy of an existing statement (Clone / deserializer)",
                      "a GC point statement is constructed outside Compiler::stmt", fn=f, line=st.line)
    # allow_gc argument at every call site of the statement compilers
    fam = r"<impl eval::compiler::Compiler<[^>]*>>::(stmt|stmt_direct|stmt_if|stmt_if_else)$"
    sites = callers(F, fam)
    ctx.floor("C03.R3", "statement-compiler call sites", len(sites), 11, inventory=True)
    n_true = 0
    for f, c in sites:
        t = top_fn(F, f)
        os_ = origins(f, c.args[-1], pass_calls=None)
        kinds = set()
        for o in os_:
            if o[0] == "const":
                kinds.add("true" if "0x01" in o[1] else "false" if "0x00" in o[1] else "const?")
            elif o[0] == "param":
                # must be the caller's own allow_gc parameter (last parameter, bool)
                kinds.add("param" if f.locals.get(o[1]) == "bool" else "other")
            else:
                kinds.add("other")
        key = "allow_gc:%s->%s" % (t.name, c.name.split("::")[-1])
        if kinds == {"true"}:
            n_true += 1
            ctx.check(t.name == "module_top_level_stmt", "C03.R3", key + ":true",
                      "constant true only for a module top-level statement",
                      "allow_gc=true is passed from `%s`: GC points may be emitted inside a nested body" % t.qpath,
                      fn=f, line=c.line)
        elif kinds <= {"false", "param"}:
            # def bodies and for bodies must pass constant false
            if t.name == "function":
                ctx.check(kinds == {"false"}, "C03.R3", key, "def body compiled with allow_gc=false",
                          "a def body is compiled with a non-false allow_gc", fn=f, line=c.line)
            else:
                ctx.ok("C03.R3", key + ":" + "/".join(sorted(kinds)), "allow_gc is false or the caller's own parameter")
        else:
            ctx.bad("C03.R3", key, "allow_gc argument has an unrecognised source %s" % sorted(kinds), fn=f, line=c.line)
    # the for-body call in stmt_direct is the constant-false one
    sd = F.one(r"eval::compiler::stmt::<impl eval::compiler::Compiler<'_, '_, '_, '_>>::stmt_direct$")
    fors = calls_by_name(sd, r"StmtsCompiled::for_stmt$")
    good = False
    for fc in fors:
        for o in origins(sd, fc.args[-1], through_all_args=True):
            if o[0] == "call" and re.search(fam, o[1].name):
                src = origins(sd, o[1].args[-1], pass_calls=None)
                good = all(x[0] == "const" and "0x00" in x[1] for x in src)
    ctx.check(bool(fors) and good, "C03.R3", "allow_gc:for-body-false",
              "the body handed to for_stmt is compiled with constant allow_gc=false",
              "the body of a top-level `for` is compiled with allow_gc != false: a collection may run while the loop "
              "iterator and bytecode temporaries are live", fn=sd)
    # InstrPossibleGc emission
    em = [(f, c) for f in F.fns.values() for c in f.calls if re.search(r"write_instr::<.*InstrPossibleGc", c.full)]
    ctx.floor("C03.R3", "InstrPossibleGc emission sites", len(em), 1)
    for f, c in em:
        t = top_fn(F, f)
        ctx.check(bool(re.search(r"IrSpanned<eval::compiler::stmt::StmtCompiled>>::write_bc_inner$", t.qpath)),
                  "C03.R3", "InstrPossibleGc-emitted-by:" + t.qpath,
                  "InstrPossibleGc is emitted only for a PossibleGc statement",
                  "InstrPossibleGc is emitted outside write_bc_inner", fn=f, line=c.line)


def r4_copy(ctx, F):
    hcs = [g for g in F.fns.values() if re.search(r"AValue<'v>>::heap_copy$|layout::avalue::heap_copy_impl$", g.qpath)]
    ctx.floor("C03.R4", "heap_copy bodies", len(hcs), 12)
    for g in hcs:
        short = g.qpath.split(" as ")[0].split("::")[-1].rstrip(">") if " as " in g.qpath else g.name
        calls = [c for c in g.calls if c.bb not in g.cleanup]
        fwd = [c for c in calls if re.search(r"overwrite_with_forward$", c.name)]
        trc = [c for c in calls if re.search(r"Trace<'v>>::trace$|Tracer::<'v>::trace$|values::trace::Trace::trace$", c.name)
               or (c.name.endswith("FnOnce::call_once") and g.name == "heap_copy_impl")]
        rsv = [c for c in calls if re.search(r"::reserve(_with_extra)?$", c.name)]
        fill = [c for c in calls if re.search(r"Reservation::<'v, T>::fill$|Reservation::<.*>::fill$", c.name)]
        deleg = [c for c in calls if re.search(r"layout::avalue::heap_copy_impl$", c.name)]
        if deleg:
            ctx.ok("C03.R4", short + ":delegates", "delegates to heap_copy_impl")
            continue
        if not fwd:
            # frozen siblings / statics must only panic
            pan = [c for c in calls if re.search(r"panic", c.name)]
            other = [c for c in calls if not re.search(r"panic|fmt::Arguments|from_str", c.name)]
            ctx.check(bool(pan) and not other, "C03.R4", short + ":frozen-sibling-panics",
                      "heap_copy of a frozen/static representation only panics (never reached by the collector)",
                      "heap_copy of `%s` neither forwards nor panics" % g.qpath, fn=g)
            continue
        for t in trc:
            ctx.check(any(g.dominates(w.bb, t.bb) and w.bb != t.bb for w in fwd), "C03.R4",
                      short + ":forward-before-trace",
                      "overwrite_with_forward dominates the tracing of the payload (cycle safety)",
                      "the payload of `%s` is traced before the old object is overwritten with a forward pointer: a "
                      "cyclic structure recurses forever / is copied twice" % short, fn=g, line=t.line)
        if rsv:
            ctx.check(bool(fill) and all(g.must_pass(r.bb, [x.bb for x in fill], g.returns()) for r in rsv), "C03.R4",
                      short + ":fill-after-reserve",
                      "Reservation::fill is reached on every normal path after reserve",
                      "a path reserves space in the new arena but never fills it (uninitialised object in the heap)",
                      fn=g)
    gci = F.one(r"heap_type::Heap::<'v>::garbage_collect_internal$")
    take = calls_by_name(gci, r"fast_cell::FastCell::<T>::take$")
    cb = [c for c in gci.calls if c.name.endswith("FnOnce::call_once") and c.bb not in gci.cleanup]
    setc = calls_by_name(gci, r"fast_cell::FastCell::<T>::set$")
    ok = False
    if take and cb and setc:
        old = take[0].dest_local
        drops = [b for b, t in gci.terms.items() if t[0] == "drop" and t[1] == old and b not in gci.cleanup]
        ok = bool(drops) and all(gci.dominates(cb[0].bb, d) and gci.dominates(setc[0].bb, d) for d in drops) \
            and gci.dominates(take[0].bb, cb[0].bb)
    ctx.check(ok, "C03.R4", "garbage_collect_internal:old-arena-outlives-trace",
              "the arena taken out of the heap is dropped only after the tracing callback and after the new arena "
              "is installed",
              "the old arena (which holds the forward pointers and the objects being copied) is dropped before the "
              "trace completes", fn=gci)


def r5_recursion(ctx, F):
    from rules.C07 import guard_set, unguarded_recursion
    cg = CallGraph(F, expand="value")
    guards, _ = guard_set(F)
    rec = unguarded_recursion(F, cg, guards)
    if "heap_copy" in rec:
        ctx.bad("C03.R5", "unguarded-recursion:heap_copy",
                "garbage collection of a deeply nested value recurses natively through heap_copy -> Tracer::trace "
                "with no depth guard (native stack overflow aborts the process)", path=rec["heap_copy"])
    else:
        ctx.ok("C03.R5", "no-unguarded-recursion:heap_copy")


def r6_reentrant(ctx, F):
    em = F.one(r"starlark::eval::<impl eval::runtime::evaluator::Evaluator<'v, 'a, 'e>>::eval_module$")
    sites = [(f, c) for f in F.fns.values() for c in f.calls if not c.indirect and c.callee_uid() == em.uid]
    ctx.floor("C03.R6", "in-crate callers of Evaluator::eval_module", len(sites), 2)
    for f, c in sites:
        t = top_fn(F, f)
        dis = calls_by_name(f, r"Evaluator::<'v, 'a, 'e>::disable_gc$")
        recv = origins(f, c.args[0]) if c.args else set()
        fresh = bool(recv) and all(o[0] == "call" and re.search(r"evaluator::Evaluator::<'v, 'a, 'e>::new$", o[1].name)
                                   for o in recv)
        if fresh:
            ctx.ok("C03.R6", "eval_module<-" + short_fn(t.qpath) + ":fresh-evaluator",
                   "the evaluator is created in this body (Evaluator::new): not a re-entrant evaluation")
            continue
        ctx.check(bool(dis) and any(f.dominates(d.bb, c.bb) and d.bb != c.bb for d in dis), "C03.R6",
                  "eval_module<-" + short_fn(t.qpath),
                  "disable_gc dominates the nested eval_module call",
                  "`%s` re-enters eval_module on a live evaluator without disable_gc first: a top-level GC point of "
                  "the nested module runs while outer frames hold untraced values" % t.qpath, fn=f, line=c.line)


def r1d_generic_params(ctx, F):
    """a generic container's Trace impl (`impl<K: Trace, V: Trace> Trace for SmallMap<K, V>`, Vec<T>, Option<T>, tuples,
    DictGen<T> ...) reaches the `trace` of every type parameter that is bounded by Trace: a parameter that is never
    traced (e.g. the keys of a map) keeps pointing into the old arena after a collection"""
    n = 0
    for i in F.impls:
        if i["crate"] != "starlark" or not re.search(r"values::trace::Trace<'v>$", i["trait"]):
            continue
        tps = sorted(set(re.findall(r"\b([A-Z]\w*): values::trace::Trace", str(i.get("preds", "")))))
        if not tps:
            continue
        fs = [f for f in F.fns.values() if f.crate == "starlark" and f.trait == i["trait"] and f.selfty == i["selfty"]
              and f.name == "trace"]
        if not fs:
            continue
        n += 1
        selfs = []
        for f in fs:
            for g in [f] + list(F.closures_of(f)):
                for c in g.calls:
                    m = re.match(r"<(.+) as values::trace::Trace<'(?:_|v)>>::trace$", c.full)
                    if m and c.bb not in g.cleanup:
                        selfs.append(m.group(1))
        for p in tps:
            ok = any(re.search(r"(?<![A-Za-z0-9_])%s(?![A-Za-z0-9_])" % re.escape(p), t) for t in selfs)
            ctx.check(ok, "C03.R1", "generic-param-traced:%s:%s" % (i["selfty"][:60], p),
                      "the trace of type parameter %s is reached" % p,
                      "`impl Trace for %s` never calls trace on a value of its parameter `%s` (bounded by Trace): values "
                      "of that type inside the container are not relocated by the collector (e.g. the keys of a map "
                      "still point into the freed arena)" % (i["selfty"], p), fn=fs[0])
    ctx.floor("C03.R1", "generic Trace impls with Trace-bounded parameters", n, 25, inventory=True)


def run(ctx):
    F = ctx.facts("core")
    vb = ValueBearing(F)
    r1d_generic_params(ctx, F)
    r1_trace(ctx, F, vb)
    r1b_dead_temporaries(ctx, F)
    r1c_all_elements(ctx, F)
    r2_roots(ctx, F, vb)
    r3_points(ctx, F)
    r4_copy(ctx, F)
    r5_recursion(ctx, F)
    r6_reentrant(ctx, F)
