"""C05 - parsing is total (only the dialect-monotonicity clause is decided statically)."""
import re

from kern import bool_call_edges, bool_local_edges, callers, short_fn, top_fn

DESCRIPTION = ("C05 clause decided: 'enabling more dialect features never turns an accepted file into a rejected one or "
               "changes its tree'. R1 no function of the lexer, the recursive-descent parser or the cursors reads a "
               "Dialect field (the tree cannot depend on the dialect); R2 every DialectError is constructed only on the "
               "disabled edge of a switch on a Dialect feature flag.")
NOT_DECIDED = ("absence of panics in lexer/parser index arithmetic, span containment, char-boundary correctness (the "
               "bulk of C05): runtime values, needs execution or range analysis")

FIELD = re.compile(r"\{dialect::Dialect::(\w+)\}")
PARSE_FILES = re.compile(r"starlark_syntax/src/(lexer\.rs|syntax/parser_rd\.rs|cursors\.rs|syntax/lexer)")


def reads(f):
    out = []
    for st in f.stmts:
        for t in st.ops:
            for m in FIELD.finditer(t):
                out.append((st.bb, m.group(1), st, None))
    for c in f.calls:
        for a in c.args:
            for m in FIELD.finditer(a):
                out.append((c.bb, m.group(1), None, c))
    return out


ENUM_ORDER = {"DialectTypes": ["Disable", "ParseOnly", "Enable"]}


def enum_flag(ctx, F, f, st, field, key):
    """`match dialect.flag { V1 => .., V2 => .. }`: enabling more must not add a way to fail. For every variant the
    blocks reachable only under that variant are its region; a region that always fails rejects everything, so it is
    never less permissive than another; otherwise the fallible calls of a more enabled variant's region must also be
    present in every less enabled, not-always-failing variant's region."""
    from kern import switch_info, enum_variant_names, locals_in
    sw = None
    for b in f.terms:
        info = switch_info(f, b)
        if not info or info["kind"] != "enum":
            continue
        pl = locals_in(info["place"] or "")
        if pl and (pl[0] == st.lhs_local or FIELD.search(info["place"])):
            sw = info
    if sw is None:
        return False
    names = enum_variant_names(F, sw["ty"])
    tyname = re.sub(r"<.*", "", sw["ty"]).split("::")[-1]
    order = ENUM_ORDER.get(tyname)
    if not order:
        ctx.bad("C05.R2", key, "dialect flag of enum type %s is matched on, but no enablement order is known for it"
                % tyname, fn=f)
        return True
    tgt = {}
    for v, t in sw["targets"].items():
        tgt[names.get(v)] = t
    for nm in names.values():
        tgt.setdefault(nm, sw["otherwise"])
    reach = {v: f.reach([t]) for v, t in tgt.items()}
    region = {v: reach[v] - set().union(*[reach[w] for w in reach if w != v and tgt[w] != tgt[v]]) for v in reach}

    def fallible(blocks):
        out = set()
        for c in f.calls:
            if c.bb in blocks and c.bb not in f.cleanup and not c.indirect:
                if f.locals.get(c.dest_local, "").startswith("std::result::Result<") and not re.search(
                        r"Try>::branch$|map_err$|FromResidual", c.name):
                    out.add(re.sub(r"::<[^>]*>", "", c.name).split("::")[-1])
        return out

    def always_fails(v):
        errs = [c.bb for c in f.calls if ERRC.search(c.name) and c.bb in region[v]]
        return bool(errs) and not (set(f.returns()) & f.reach([tgt[v]], cut_blocks=set(errs)))
    good = True
    detail = ""
    for i, v2 in enumerate(order):
        if v2 not in region:
            continue
        for v1 in order[:i]:
            if v1 not in region or always_fails(v1):
                continue
            extra = fallible(region[v2]) - fallible(region[v1])
            if extra and tgt[v1] != tgt[v2]:
                good = False
                detail = "`%s` can fail in %s under %s but not under the less permissive %s" % (
                    field, sorted(extra), v2, v1)
    ctx.check(good, "C05.R2", key,
              "no variant of the flag adds a way to fail compared with a less enabled variant",
              "the match on Dialect::%s makes a more enabled setting stricter: %s (a file accepted with fewer features "
              "enabled is rejected with more)" % (field, detail), fn=f)
    return True


ERRC = re.compile(r"syntax::state::ParserState::<'a>::error$|syntax::grammar_util::err$")


POS_SRC_OK = re.compile(r"^(const|param|Lexer::span|Cursor(Chars|Bytes)::pos|usize::(saturating_sub|saturating_add|min|max)|"
                        r"(str|String|\[T\]|slice|Vec)::len|char::len_utf8|slice::last_mut|cmp::(min|max)|unknown)$")


def r3_lexer_positions(ctx, F):
    """byte offsets in the lexer (what is handed to logos `bump` and to error/token spans) are computed only from other
    byte offsets (cursor positions, token spans), byte lengths (`len`, `len_utf8`) and constants. A character count or a
    truth value (`usize::from(x.is_some())`) is not a byte length: with a multi-byte character next to the token the
    offset falls inside a character - logos asserts (panic) or the error span is off a character boundary."""
    from kern import origins
    pc = re.compile(r"(Try>::branch$|Option::<.*>::(unwrap\w*|expect)$)")
    n = 0
    for f in F.fns.values():
        if f.crate != "starlark_syntax" or "src/lexer.rs" not in f.span:
            continue
        for st in f.stmts:
            m = re.match(r"binop (Add|Sub)WithOverflow$", st.kind)
            if not m or st.bb in f.cleanup or (len(st.ops) > 1 and st.ops[1].strip() != "usize"):
                continue
            n += 1
            src = set()
            for op in st.ops[0].split(" , "):
                for o in origins(f, op, pass_calls=pc):
                    src.add(short_fn(o[1].name) if o[0] == "call" else
                            (o[0] if o[0] != "agg" else "agg:" + o[1].kind.split("::")[-1]))
            bad = sorted(x for x in src if not POS_SRC_OK.match(x))
            ctx.check(not bad, "C05.R3", "lexer-offset-sources:%s:%s" % (short_fn(top_fn(F, f).qpath), "+".join(bad) or "ok"),
                      "offset arithmetic over positions, byte lengths and constants only",
                      "`%s` computes a byte offset from %s: that is not a byte position or byte length, so next to a "
                      "multi-byte character the offset lands inside a character (logos `bump` asserts, or the error "
                      "span is not on a character boundary)" % (short_fn(top_fn(F, f).qpath), bad), fn=f, line=st.line)
    ctx.floor("C05.R3", "offset additions/subtractions in the lexer", n, 60, inventory=True)


CUR = r"cursors::Cursor(Chars|Bytes)(::<'a>)?::"


def r4_no_decrement_after_helper(ctx, F):
    """`cursor.pos() - k` names the start of the k bytes just consumed only while the lexer knows what it consumed (an
    ASCII character it matched itself). After the cursor was handed to a helper that consumes an unknown number of
    characters (escape parsing), `pos() - k` can land inside a multi-byte character: no such subtraction is reachable
    from a helper call without an intervening `next()` of the lexer's own."""
    from kern import locals_in, origins
    n = 0
    for f in F.fns.values():
        if f.crate != "starlark_syntax" or "src/lexer.rs" not in f.span:
            continue
        helpers = [c for c in f.calls if c.bb not in f.cleanup and not c.indirect and not re.search(CUR, c.name)
                   and any(re.search(r"&mut cursors::Cursor(Chars|Bytes)", f.locals.get(l, ""))
                           for a in c.args for l in locals_in(a))]
        nexts = {c.bb for c in f.calls if re.search(CUR + r"(next|next_char)$", c.name)}
        for st in f.stmts:
            if st.kind != "binop SubWithOverflow" or st.bb in f.cleanup:
                continue
            ops = st.ops[0].split(" , ")
            if len(ops) < 2 or not ops[1].strip().startswith("const"):
                continue
            reads = [o[1] for o in origins(f, ops[0]) if o[0] == "call" and re.search(CUR + r"pos$", o[1].name)]
            if not reads:
                continue
            n += 1
            # what matters is where the position was READ, not where the subtraction happens
            bad = [h for h in helpers if any(p.bb in f.reach(list(f.succs(h.bb)), cut_blocks=nexts) for p in reads)]
            ctx.check(not bad, "C05.R4", "pos-decrement-after-helper:%s:%s" % (
                short_fn(top_fn(F, f).qpath), "+".join(sorted({h.name.split("::")[-1] for h in bad})) or "none"),
                      "the decrement follows a character the lexer consumed itself",
                      "`%s` computes `pos() - const` after `%s` consumed an unknown number of characters from the "
                      "cursor: when the last of them is multi-byte the offset (an error span start) falls inside it"
                      % (short_fn(top_fn(F, f).qpath), bad[0].name.split("::")[-1] if bad else ""), fn=f, line=st.line)
    ctx.floor("C05.R4", "`pos() - const` computations in the lexer", n, 3)


# reviewed callers of the PANICKING line accessors of CodeMap (line_span, line_span_trim_newline, source_line):
# each takes its line number from the same code map
LINE_ACCESS_OK = {
    "CodeMap::find_line_col": "line from find_line(pos) of the same map",
    "CodeMap::line_span_trim_newline": "wrapper (its callers are checked)",
    "CodeMap::source_line": "wrapper (its callers are checked)",
    "CodeMap::source_line_at_pos": "line from find_line(pos) of the same map",
    "span_display::convert_span_to_slice": "lines of a span resolved against the same map",
    "LintSuppressionsBuilder::parse_comment": "the line of the comment token being parsed (resolved from its own span)",
    "find::has_unused_marker_in_range": "lines of a resolved span of the same map",
}


def r5_line_accessors(ctx, F, rule="C05.R5", crates=("starlark_syntax", "starlark")):
    """CodeMap::line_span / line_span_trim_newline / source_line panic when the line does not exist; a line number that
    comes from outside the map - "the line after this one", a position sent by an editor against a stale parse - must go
    through line_span_opt. Only reviewed callers, whose line number is derived from the same map, use the panicking
    forms."""
    from kern import reviewed
    n = 0
    for pat in (r"codemap::CodeMap::line_span$", r"codemap::CodeMap::line_span_trim_newline$",
                r"codemap::CodeMap::source_line$"):
        for f, c in callers(F, pat):
            if f.crate not in crates:
                continue
            n += 1
            who = short_fn(top_fn(F, f).qpath)
            why = reviewed(F, LINE_ACCESS_OK, who)
            ctx.check(why is not None, rule, "panicking-line-accessor:%s<-%s" % (pat.split("::")[-1].rstrip("$"), who),
                      "reviewed: " + (why or ""),
                      "`%s` calls the panicking `CodeMap::%s` and is not a reviewed caller: if its line number can lie "
                      "past the end of the file (the line after the last one, an editor position against a stale parse) "
                      "parsing / the language server panics instead of answering; use line_span_opt"
                      % (who, pat.split("::")[-1].rstrip("$")), fn=f, line=c.line)
    ctx.floor(rule, "calls of the panicking line accessors", n, 4)


def run(ctx):
    F = ctx.facts("core")
    r3_lexer_positions(ctx, F)
    r5_line_accessors(ctx, F)
    r4_no_decrement_after_helper(ctx, F)
    readers = []
    for f in F.fns.values():
        if f.crate != "starlark_syntax" or re.search(r"<dialect::Dialect as ", f.qpath):
            continue
        rs = reads(f)
        if rs:
            readers.append((f, rs))
    n_reads = sum(len(r) for _, r in readers)
    ctx.floor("C05.R1", "Dialect field reads in starlark_syntax", n_reads, 10)
    nparse = 0
    for f in F.fns.values():
        if f.crate == "starlark_syntax" and PARSE_FILES.search(f.span):
            nparse += 1
    ctx.floor("C05.R1", "lexer/parser/cursor bodies analysed", nparse, 100, inventory=True)
    for f, rs in readers:
        in_parser = bool(PARSE_FILES.search(f.span))
        ctx.check(not in_parser, "C05.R1", "reader:" + short_fn(f.qpath),
                  "the dialect is read outside the lexer/parser (validation layer)",
                  "`%s` (lexer/parser layer) reads Dialect::%s: the syntax tree now depends on the dialect, so enabling "
                  "a feature can change how an accepted file is parsed" % (short_fn(f.qpath), rs[0][1]), fn=f)
    # R2: around every flag test, errors are recorded only on the blocks reachable solely through the disabled edge
    ERR = re.compile(r"syntax::state::ParserState::<'a>::error$|syntax::grammar_util::err$")
    n_flags = 0
    dialect_msgs_guarded = set()
    for f, rs in readers:
        errc = [c for c in f.calls if ERR.search(c.name) and c.bb not in f.cleanup]
        for bb, field, st, call in rs:
            if st is not None and st.kind == "use":
                dis = bool_local_edges(f, st.lhs_local, "false")
                ena = bool_local_edges(f, st.lhs_local, "true")
            else:
                # `flag == DialectTypes::Disable` through PartialEq::eq(&flag, &Disable)
                eqs = [c for c in f.calls if re.search(r"PartialEq>::eq$", c.name) and (
                    c is call or (st is not None and any(st.lhs in a for a in c.args)))]
                dis, ena = set(), set()
                for c in eqs:
                    dis |= bool_call_edges(F, f, c, "true")
                    ena |= bool_call_edges(F, f, c, "false")
            key = "flag:%s:%s" % (short_fn(f.qpath), field)
            if (not dis or not ena) and st is not None:
                # an enum-valued flag tested with `match`: per-variant regions, ordered from least to most enabled
                done = enum_flag(ctx, F, f, st, field, key)
                if done:
                    n_flags += 1
                    continue
            if not dis or not ena:
                ctx.bad("C05.R2", key, "cannot find the branch on Dialect::%s (anchor-missing)" % field, fn=f)
                continue
            n_flags += 1
            rd = set().union(*[f.reach([t]) for (_, t) in dis])
            re_ = set().union(*[f.reach([t]) for (_, t) in ena])
            only_dis = rd - re_
            only_ena = re_ - rd
            e_dis = [c for c in errc if c.bb in only_dis]
            e_ena = [c for c in errc if c.bb in only_ena]
            for c in e_dis:
                dialect_msgs_guarded.add((f.uid, c.bb))
            ctx.check(bool(e_dis) and not e_ena, key and "C05.R2", key,
                      "an error is recorded only on blocks reachable solely through the disabled edge of the flag",
                      "the branch on Dialect::%s records an error on its *enabled* side (%d sites) or no longer on its "
                      "disabled side: enabling the feature can reject a file that was accepted without it"
                      % (field, len(e_ena)), fn=f)
    ctx.floor("C05.R2", "dialect flag branches", n_flags, 10)
    # every 'not allowed in this dialect' message is under such a disabled edge
    from kern import _chase_const
    n_msg = 0
    for f in F.fns.values():
        if f.crate != "starlark_syntax":
            continue
        for c in f.calls:
            if not ERR.search(c.name) or not c.args or c.bb in f.cleanup:
                continue
            msg = _chase_const(f, c.args[-1]) or ""
            if "dialect" not in msg:
                continue
            n_msg += 1
            ctx.check((f.uid, c.bb) in dialect_msgs_guarded, "C05.R2",
                      "dialect-message:%s:%s" % (short_fn(f.qpath), re.sub(r"[^A-Za-z]+", "-", msg)[:40]),
                      "the dialect error message is emitted only under a disabled feature flag",
                      "a 'not allowed in this dialect' error (%s) is emitted on a path not controlled by a disabled "
                      "feature flag" % msg, fn=f, line=c.line)
    ctx.floor("C05.R2", "dialect error messages", n_msg, 8, inventory=True)
