"""C12 - no mutation while iterating; released when iteration ends (structural clauses)."""
import re

from kern import CallGraph, branch_edges, calls_by_name, calls_to, callers, forward_locals, origins, outcome_edges, short_fn, top_fn

DESCRIPTION = ("C12 clauses decided: R1 every structured loop exit (exhaustion, break, continue-exhaustion, return) "
               "reaches iter_stop (must-pass-through on the MIR of the 4 handlers and dominance in the return emitter); "
               "R2 exit by error stops the open iterators; R3 acquire/release sibling pairing of list/dict/set "
               "iteration locks; R4 raw iterate/iter_stop trampolines are only used by the handlers and the RAII "
               "iterator.")
NOT_DECIDED = "behaviour of every builtin x container combination at run time; C04.R2/R3 cover the mutator side"

TRAMP = r"starlark::values::layout::vtable::AValueDyn::<'v>::%s$"


def handler(F, name):
    return F.one(r"starlark::<eval::bc::instr_impl::%s as eval::bc::instr::BcInstr>::run$" % name)


def r1_exits(ctx, F):
    for name in ("InstrIter", "InstrContinue"):
        f = handler(F, name)
        nxt = calls_by_name(f, TRAMP % "iter_next")
        stop = calls_to(F, f, TRAMP % "iter_stop")
        if len(nxt) != 1:
            ctx.bad("C12.R1", name + ":anchor", "anchor-missing: iter_next call not found", fn=f)
            continue
        if not stop:
            ctx.bad("C12.R1", name + ":exhaustion-stops-iterator",
                    "the handler never calls iter_stop: when the iterator is exhausted the lock taken by iterate() is "
                    "not released and the container stays locked after the loop ends", fn=f, line=nxt[0].line)
            continue
        none_e = outcome_edges(F, f, nxt[0], "None")
        some_e = outcome_edges(F, f, nxt[0], "Some")
        good = bool(none_e) and all(
            not (set(f.returns()) & f.reach([t], cut_blocks={c.bb for c in stop})) for (_, t) in none_e)
        ctx.check(good, "C12.R1", name + ":exhaustion-stops-iterator",
                  "the None edge of iter_next reaches iter_stop on every path before the handler returns",
                  "iterator exhaustion can leave the handler without iter_stop: the container stays locked "
                  "after the loop ends", fn=f, line=nxt[0].line)
        # the Some edge must NOT stop (the loop goes on)
        stray = any({c.bb for c in stop} & f.reach([t]) for (_, t) in some_e)
        ctx.check(bool(some_e) and not stray, "C12.R1", name + ":next-element-keeps-lock",
                  "the Some edge does not release the lock (iteration continues)",
                  "the handler releases the iteration lock although iteration continues (mutation during iteration "
                  "becomes possible)", fn=f)
    for name in ("InstrBreak", "InstrIterStop"):
        f = handler(F, name)
        stop = calls_to(F, f, TRAMP % "iter_stop")
        good = bool(stop) and f.must_pass_from_entry([c.bb for c in stop], f.returns())
        ctx.check(good, "C12.R1", name + ":always-stops", "iter_stop is called on every normal path",
                  "a path through the handler skips iter_stop (container stays locked after break/return)", fn=f)

    # return emission
    wr = F.one(r"IrSpanned<eval::compiler::stmt::StmtCompiled>>::write_return$")
    wis = calls_to(F, wr, r"BcWriter::<'f>::write_iter_stop$")
    emit_re = re.compile(r"write_instr(_ret_arg)?::<eval::bc::instr_impl::InstrReturn\w*>")
    sites = []
    for f in F.fns.values():
        for c in f.calls:
            if emit_re.search(c.full):
                sites.append((f, c))
    ctx.floor("C12.R1", "Return* emission sites", len(sites), 5)
    allowed_outside_loop = r"<impl eval::compiler::stmt::StmtsCompiled>::as_bc(::\{closure#\d+\})?$"
    for f, c in sites:
        t = top_fn(F, f)
        if t.uid == wr.uid:
            if f.uid == wr.uid:
                good = bool(wis) and any(wr.dominates(w.bb, c.bb) and w.bb != c.bb for w in wis)
            else:
                # closure: its construction site in write_return must be dominated by write_iter_stop
                cons = [st for st in wr.stmts if st.kind.startswith("agg closure ") and st.kind.endswith("@" + f.uid)]
                good = bool(wis) and bool(cons) and all(
                    any(wr.dominates(w.bb, st.bb) and w.bb != st.bb for w in wis) for st in cons)
                # or the closure itself stops the iterators right before emitting the return
                own = calls_by_name(f, r"BcWriter::<'f>::write_iter_stop$")
                good = good or any(f.dominates(w.bb, c.bb) and w.bb != c.bb for w in own)
            ctx.check(good, "C12.R1", "write_return:iter_stop-before:" + c.full.rsplit("::", 1)[-1],
                      "write_iter_stop dominates the emission of the return instruction",
                      "a return instruction is emitted without the preceding write_iter_stop: `return` inside a for "
                      "loop leaves the iterated container locked", fn=f, line=c.line)
        else:
            ctx.check(bool(re.search(allowed_outside_loop, f.qpath)), "C12.R1",
                      "return-emitter:" + f.qpath,
                      "Return* emitted at function end (outside every loop)",
                      "a Return* instruction is emitted outside write_return (which stops open iterators first)",
                      fn=f, line=c.line)
    # write_iter_stop stops every open loop: loops over for_loops and emits InstrIterStop
    wisf = F.one(r"BcWriter::<'f>::write_iter_stop$")
    em = [c for c in wisf.calls if "InstrIterStop" in c.full]
    ctx.check(bool(em), "C12.R1", "write_iter_stop:emits-InstrIterStop",
              "write_iter_stop emits InstrIterStop", "write_iter_stop no longer emits InstrIterStop", fn=wisf)
    # break/continue use the innermost loop's iterator slot
    for name in ("write_break", "write_continue"):
        f = F.one(r"BcWriter::<'f>::%s$" % name)
        last = [c for c in f.calls if re.search(r"slice::<impl \[T\]>::last$", c.name)]
        reads = [st for st in f.stmts if "{eval::bc::writer::BcWriterForLoop::iter}" in st.text()]
        good = bool(last) and bool(reads)
        for st in reads:
            os_ = origins(f, st.ops[0])
            good = good and any(o[0] == "call" and o[1] in last for o in os_)
        ctx.check(good, "C12.R1", name + ":innermost-loop-slot",
                  "the iterator slot comes from for_loops.last()",
                  "the iterator slot released by break/continue is not the innermost loop's", fn=f)


def r2_error_exit(ctx, F):
    rb = F.one(r"starlark::eval::bc::bytecode::run_block$")
    cg = CallGraph(F, expand="value")
    stop_t = cg.trampolines.get("iter_stop")
    errs = [st for st in rb.stmts if st.kind == "agg adt std::result::Result::Err" and st.bb not in rb.cleanup]
    if not errs or stop_t is None:
        ctx.bad("C12.R2", "run_block:anchor", "anchor-missing: Err construction / iter_stop trampoline", fn=rb)
        return
    # a call on the error path that (transitively) reaches the iter_stop trampoline
    for st in errs:
        stoppers = []
        for c in rb.calls:
            if c.bb in rb.cleanup or c.indirect:
                continue
            u = c.callee_uid()
            if u in F.fns and stop_t in cg.reach([u]):
                if rb.dominates(c.bb, st.bb) or st.bb in rb.after(c.bb):
                    stoppers.append(c)
        # must be on the error arm: dominated by the Err-variant edge of the step() result
        good = False
        for c in stoppers:
            if c.bb != st.bb and rb.dominates(c.bb, st.bb) and not any(
                    rb.dominates(c.bb, r) for r in rb.returns() if r not in rb.after(st.bb)):
                good = True
        ctx.check(good, "C12.R2", "run_block:Err",
                  "the error arm of run_block stops the open iterators before returning",
                  "the InstrControl::Err arm of run_block returns without stopping the iterators of the loops the "
                  "failing instruction was in: after an error propagates out of a for loop the iterated list/dict "
                  "stays locked", fn=rb, line=st.line)


def r3_siblings(ctx, F):
    def body_calls(pattern, callee_pattern):
        fs = F.find(pattern)
        if len(fs) != 1:
            raise_missing(pattern, fs)
        return fs[0], calls_to(F, fs[0], callee_pattern)

    def raise_missing(p, fs):
        from facts import AnchorMissing
        raise AnchorMissing("expected one function for %r, found %d" % (p, len(fs)))

    # list
    f, cs = body_calls(r"<values::types::list::value::ListData<'v> as values::types::list::value::ListLike<'v>>::new_iter$",
                       r"Array::<'v>::inc_iter_count$")
    ctx.check(bool(cs) and f.must_pass_from_entry([c.bb for c in cs], f.returns()), "C12.R3", "list:acquire",
              "ListData::new_iter increments the array's iterator count on every path",
              "ListData::new_iter no longer takes the iteration lock", fn=f)
    f, cs = body_calls(r"<values::types::array::Array<'v> as values::traits::StarlarkValue<'v>>::iter_stop$",
                       r"Array::<'v>::dec_iter_count$")
    ctx.check(bool(cs) and f.must_pass_from_entry([c.bb for c in cs], f.returns()), "C12.R3", "list:release",
              "Array::iter_stop decrements the iterator count on every path",
              "Array::iter_stop no longer releases the iteration lock", fn=f)
    for m in ("new_iter", "iter_stop"):
        f, cs = body_calls(r"<values::types::list::value::FrozenListData as values::types::list::value::ListLike<'v>>::%s$" % m,
                           r"(inc|dec)_iter_count$")
        ctx.check(not cs, "C12.R3", "frozen-list:" + m, "frozen list takes/releases no lock",
                  "frozen list touches the iterator count (shared between threads)", fn=f)
    inc = F.one(r"values::types::array::Array::<'v>::inc_iter_count$")
    dec = F.one(r"values::types::array::Array::<'v>::dec_iter_count$")
    for f, op in ((inc, "Add"), (dec, "Sub")):
        # the counter update exists (a binop on the value read through iter_count)
        upd = [st for st in f.stmts if st.kind.startswith("binop " + op) or st.kind.startswith("binop %sWithOverflow" % op)]
        ctx.check(bool(upd), "C12.R3", "array:%s-updates-counter" % f.name,
                  "%s performs %s on the counter" % (f.name, op),
                  "%s no longer updates iter_count" % f.name, fn=f)
    ccm = F.one(r"values::types::list::value::ListData::<'v>::check_can_mutate$")
    cs = calls_by_name(ccm, r"Array::<'v>::iter_count_is_non_zero$")
    errs = [st for st in ccm.stmts if "MutationDuringIteration" in st.kind]
    ok = False
    if cs and errs:
        te = set()
        for c in cs:
            from kern import bool_call_edges
            te |= bool_call_edges(F, ccm, c, "true")
        # through `unlikely(...)`: follow forward
        if not te:
            e2, _ = branch_edges(F, ccm, [cs[0].dest_local], "true", via_calls=re.compile(r"(intrinsics|hint)::unlikely$"))
            te = e2
        ok = bool(te) and all(not ccm.reach(0, cut_edges=te) & {st.bb} for st in errs)
    ctx.check(ok, "C12.R3", "list:check_can_mutate-tests-counter",
              "check_can_mutate returns MutationDuringIteration exactly on the non-zero edge of iter_count_is_non_zero",
              "check_can_mutate no longer fails when the iterator count is non-zero", fn=ccm)

    # dict / set
    for ty, like, path in (("dict", "DictLike", r"<std::cell::RefCell<values::types::dict::value::Dict<'v>> as values::types::dict::value::DictLike<'v>>"),
                           ("set", "SetLike", r"<std::cell::RefCell<values::types::set::value::SetData<'v>> as values::types::set::value::SetLike<'v>>")):
        f, cs = body_calls(path + r"::iter_start$", r"RefCell::<T>::borrow$")
        fg = calls_by_name(f, r"std::mem::forget$")
        ctx.check(bool(cs) and bool(fg) and f.must_pass_from_entry([c.bb for c in fg], f.returns()), "C12.R3",
                  ty + ":acquire", "iter_start leaks a shared borrow (borrow + mem::forget) on every path",
                  ty + " iter_start no longer leaks a borrow: mutation during iteration is not detected", fn=f)
        f, cs = body_calls(path + r"::iter_stop$", r"util::refcell::unleak_borrow$")
        ctx.check(bool(cs) and f.must_pass_from_entry([c.bb for c in cs], f.returns()), "C12.R3", ty + ":release",
                  "iter_stop un-leaks the borrow on every path",
                  ty + " iter_stop no longer releases the leaked borrow", fn=f)
    for ty, gen, like in (("dict", r"values::types::dict::value::DictGen<T>", "DictLike"),
                          ("set", r"values::types::set::value::SetGen<T>", "SetLike"),
                          ("list", r"values::types::list::value::ListGen<T>", "ListLike")):
        start = "new_iter" if ty == "list" else "iter_start"
        f, cs = body_calls(r"<%s as values::traits::StarlarkValue<'v>>::iterate$" % gen, r"%s::%s$" % (like, start))
        ctx.check(bool(cs) and f.must_pass_from_entry([c.bb for c in cs], f.returns()), "C12.R3",
                  ty + ":iterate-acquires", "StarlarkValue::iterate calls %s::%s on every path" % (like, start),
                  "%s iterate no longer acquires the iteration lock" % ty, fn=f)
        f, cs = body_calls(r"<%s as values::traits::StarlarkValue<'v>>::iter_stop$" % gen, r"%s::iter_stop$" % like)
        ctx.check(bool(cs) and f.must_pass_from_entry([c.bb for c in cs], f.returns()), "C12.R3",
                  ty + ":iter_stop-releases", "StarlarkValue::iter_stop forwards to %s::iter_stop" % like,
                  "%s iter_stop no longer releases the iteration lock" % ty, fn=f)


def r4_raii(ctx, F):
    allowed = [
        r"<eval::bc::instr_impl::Instr(Iter|Continue|Break|IterStop) as eval::bc::instr::BcInstr>::run$",
        r"values::layout::value::Value::<'v>::iterate$",
        r"<values::iter::StarlarkIterator<'v> as std::iter::Iterator>::next$",
        r"<values::iter::StarlarkIterator<'v> as std::ops::Drop>::drop$",
    ]
    from kern import unexpected_callers
    n = 0
    for op in ("iterate", "iter_stop"):
        bad, k = unexpected_callers(F, TRAMP % op, lambda t: any(re.search(a, t.qpath) for a in allowed))
        n += k
        for f, c in bad:
            t = top_fn(F, f)
            ctx.bad("C12.R4", "raw-%s:%s" % (op, short_fn(t.qpath)),
                    "raw `%s` trampoline called outside the instruction handlers / StarlarkIterator (`%s`): the "
                    "acquire/release pairing is no longer guaranteed by construction" % (op, t.qpath), fn=f, line=c.line)
        if not bad:
            ctx.ok("C12.R4", "raw-%s" % op, "raw %s trampoline used only by the handlers and the RAII iterator (%d sites)"
                   % (op, k))
    ctx.floor("C12.R4", "raw iterate/iter_stop call sites", n, 8, inventory=True)
    # RAII: StarlarkIterator::next stops on exhaustion, Drop stops otherwise
    nx = F.one(r"<values::iter::StarlarkIterator<'v> as std::iter::Iterator>::next$")
    nxt = calls_by_name(nx, TRAMP % "iter_next")
    stop = calls_by_name(nx, TRAMP % "iter_stop")
    if nxt and stop:
        none_e = outcome_edges(F, nx, nxt[0], "None")
        good = bool(none_e) and all(
            not (set(nx.returns()) & nx.reach([t], cut_blocks={c.bb for c in stop})) for (_, t) in none_e)
    else:
        good = False
    ctx.check(good, "C12.R4", "StarlarkIterator::next:stops-on-exhaustion",
              "exhaustion in StarlarkIterator::next reaches iter_stop",
              "StarlarkIterator::next no longer stops the iterator on exhaustion", fn=nx)
    dr = F.one(r"<values::iter::StarlarkIterator<'v> as std::ops::Drop>::drop$")
    ctx.check(bool(calls_by_name(dr, TRAMP % "iter_stop")), "C12.R4", "StarlarkIterator::drop:stops",
              "dropping an unfinished StarlarkIterator calls iter_stop",
              "StarlarkIterator::drop no longer releases the container", fn=dr)


def r6_views(ctx, F):
    """no unlocked view of a list's content (a slice that takes no iteration lock) is live across a call that can
    run user code: user code could mutate the list and invalidate the slice"""
    cg = CallGraph(F, expand="value")
    wcs = F.one(r"Evaluator::<'v, 'a, 'e>::with_call_stack$")
    rev = cg.rev()
    U = set()
    st = [wcs.uid]
    while st:
        n = st.pop()
        if n in U:
            continue
        U.add(n)
        st.extend(rev.get(n, ()))
    ctx.floor("C12.R6", "functions that can run user code", len(U), 178, inventory=True)
    VIEW = re.compile(r"(list::value::ListData::<'v>::content|list::refs::ListRef::<'v>::(content|iter)|"
                      r"ListLike<'v>>::content|array::Array::<'v>::content|ListLike::content)$")
    n_views = 0
    n_bad = 0
    for f in F.fns.values():
        if f.crate != "starlark":
            continue
        for v in f.calls:
            if v.bb in f.cleanup or not VIEW.search(v.name):
                continue
            n_views += 1
            after = f.after(v.bb)
            us = [c for c in f.calls if c.bb in after and not c.indirect and c.callee_uid() in U]
            if us:
                n_bad += 1
                ctx.bad("C12.R6", "view-across-callback:%s" % short_fn(top_fn(F, f).qpath),
                        "`%s` takes an unlocked view of a list's content (`%s`) and afterwards calls `%s`, which can "
                        "run user code: the callback may mutate the list while the view is in use (iterate through "
                        "Value::iterate, which locks the list, or copy the elements first)"
                        % (short_fn(top_fn(F, f).qpath), short_fn(v.name), short_fn(us[0].name)), fn=f, line=v.line)
    ctx.floor("C12.R6", "unlocked list content views", n_views, 31, inventory=True)
    if n_bad == 0:
        ctx.ok("C12.R6", "no-view-across-callback", "%d unlocked list views inspected, none live across a user callback" % n_views)


INVOKES = re.compile(r"Value::<'v>::invoke(_pos|_with_loc|_method)?$|Evaluator::<'v, 'a, 'e>::eval_function$|"
                     r"StarlarkCallable.*::invoke\w*$")
ITERATES = re.compile(r"::iterate$")
ITER_ADAPTERS = re.compile(r"(Try>::branch$|IntoIterator(>)?::into_iter$|Iterator(>)?::(map|filter|filter_map|enumerate|zip|chain|"
                           r"peekable|skip|take|rev|fuse|inspect|cloned|copied|by_ref)$|FromResidual|Result::<.*>::(ok|unwrap\w*|expect)$)")
ITER_CONSUMERS = re.compile(r"(Iterator(>)?::(collect|fold|count|last|for_each|sum|product|max\w*|min\w*|all|any|find\w*|"
                            r"position|try_fold|try_for_each|unzip|partition|nth)$|FromIterator(<.*>)?(>)?::from_iter$|"
                            r"Extend(<.*>)?(>)?::extend$|Vec::<.*>::extend$|iter::IntoIterator>::into_iter$.*collect|"
                            r"itertools::Itertools>::\w+$|mem::drop$)")


def _reaches_invoke(F, g, depth=4, _seen=None):
    _seen = set() if _seen is None else _seen
    if g.uid in _seen or depth < 0:
        return False
    _seen.add(g.uid)
    for h in [g] + list(F.closures_of(g)):
        for c in h.calls:
            if c.indirect or c.bb in h.cleanup:
                continue
            if INVOKES.search(c.name):
                return True
            k = F.fns.get(c.callee_uid())
            if k is not None and k.crate == "starlark" and re.search(r"/stdlib/|/values/types/", k.span) \
                    and _reaches_invoke(F, k, depth - 1, _seen):
                return True
    return False


def r5_callbacks_under_iteration(ctx, F):
    """a builtin that consumes an iterable and calls back into Starlark (key=, func) keeps the iterator alive while it
    calls back: the iterator is the lock. If the iterator is drained into a Rust collection first, the callbacks run
    with the container unlocked and can mutate it."""
    from kern import natives
    n = 0
    for nat in natives(F):
        if nat.impl is None or not _reaches_invoke(F, nat.impl):
            continue
        work, seen = [nat.impl], {}
        while work and len(seen) < 40:
            g = work.pop()
            if g.uid in seen:
                continue
            seen[g.uid] = g
            for c in g.calls:
                k = F.fns.get(c.callee_uid()) if not c.indirect else None
                if k is not None and k.crate == "starlark" and "/stdlib/" in k.span:
                    work.append(k)
        for h in seen.values():
            its = [c for c in h.calls if ITERATES.search(c.name) and c.bb not in h.cleanup
                   and "Iterator" in h.locals.get(c.dest_local, "") + c.full]
            if not its:
                continue
            n += 1
            bad = None
            for it in its:
                t = forward_locals(h, [it.dest_local], pass_calls=ITER_ADAPTERS)
                cons = [c for c in h.calls if c.bb not in h.cleanup and ITER_CONSUMERS.search(c.name)
                        and any(re.match(r"move (_\d+)$", a) and a.split()[1] in t for a in c.args)]
                for c in cons:
                    later = h.after(c.bb)
                    for d in h.calls:
                        if d.indirect or d.bb in h.cleanup or d.bb == c.bb or d.bb not in later:
                            continue
                        k = F.fns.get(d.callee_uid())
                        if INVOKES.search(d.name) or (k is not None and k.crate == "starlark" and _reaches_invoke(F, k)):
                            bad = (c, d)
            ctx.check(bad is None, "C12.R5", "callbacks-under-iteration:%s:%s" % (nat.name, short_fn(h.qpath)),
                      "no Starlark callback runs after the iterator of the consumed container was drained",
                      "`%s` drains the iterator of its iterable argument (`%s`) and only then calls back into Starlark "
                      "(`%s`): the container is unlocked during the callbacks, so a key/func that mutates it through an "
                      "alias succeeds instead of failing" % (nat.name, bad[0].name.split("::")[-1] if bad else "",
                                                            short_fn(bad[1].name) if bad else ""), fn=h,
                      line=bad[1].line if bad else None)
    ctx.floor("C12.R5", "builtins that iterate an argument and call back", n, 5, inventory=True)


def r7_adapter_releases_on_exhaustion(ctx, F):
    """StarlarkIterator (the adapter every native builtin iterates through) is the lock holder: inside `next` it gives
    the lock back (iter_stop) only when the container reported exhaustion (iter_next returned None). Releasing it when
    an element was returned - e.g. eagerly after the last one - unlocks the container while the consumer is still
    working on that element (a key= callback can then mutate it)."""
    from kern import guarded_by_edges
    f = F.one(r"<values::iter::StarlarkIterator<'v> as std::iter::Iterator>::next$")
    nx = [c for c in f.calls if c.bb not in f.cleanup and re.search(r"::iter_next$", c.name)]
    stops = [c for c in calls_to(F, f, r"(AValueDyn::<'v>|StarlarkValue<'v>>)::iter_stop$|::iter_stop$")
             if c.bb not in f.cleanup]
    if len(nx) != 1 or not stops:
        ctx.bad("C12.R7", "adapter-next:anchor", "anchor-missing: iter_next / iter_stop in StarlarkIterator::next", fn=f)
        return
    none_edges = outcome_edges(F, f, nx[0], "None")
    for s_ in stops:
        ctx.check(bool(none_edges) and any(f.edge_dominates(e, s_.bb) for e in none_edges), "C12.R7",
                  "adapter-releases-only-on-exhaustion:" + s_.name.split("::")[-1],
                  "the release is reached only through the `None` outcome of iter_next",
                  "StarlarkIterator::next can call iter_stop (`%s`) on a path where iter_next returned an element: the "
                  "container is unlocked while the builtin that consumes it is still processing that element"
                  % short_fn(s_.name), fn=f, line=s_.line)


def run(ctx):
    F = ctx.facts("core")
    r5_callbacks_under_iteration(ctx, F)
    r7_adapter_releases_on_exhaustion(ctx, F)
    # every list mutator (element assignment included) checks the iteration lock first (shared with C04.R2)
    from rules.C04 import r2_list
    r2_list(ctx, F, rule="C12.R8")
    r6_views(ctx, F)
    r1_exits(ctx, F)
    r2_error_exit(ctx, F)
    r3_siblings(ctx, F)
    r4_raii(ctx, F)
