"""C17 - static type checker: only the 'same diagnostics each time' clause is decided statically."""
from rules.C14 import r1

DESCRIPTION = ("C17 clause decided: 'gives the same diagnostics each time' - every iteration over a randomly seeded "
               "std HashMap/HashSet inside the type checker (typing/**) and the lint analyses (analysis/**) is in a "
               "reviewed order-insensitive position (C14.R1 restricted to those modules).")
NOT_DECIDED = ("termination, soundness of the assigned types and absence of false positives on well-typed code: "
               "semantic properties of the type system, not decided by static analysis of the checker's shape")


def run(ctx):
    F = ctx.facts("core")
    total, nrand = r1(ctx, F, rule="C17.R1", only_files=r"starlark/src/(typing|analysis)/")
    ctx.floor("C17.R1", "HashMap/HashSet iteration sites in typing/ and analysis/", total, 7, inventory=True)
    ctx.info["random_hasher_iteration_sites"] = nrand
