"""C17 - static type checker: only the 'same diagnostics each time' clause is decided statically."""
import re

from kern import short_fn, top_fn
from rules.C14 import r1

DESCRIPTION = ("C17 clause decided: 'gives the same diagnostics each time' - every iteration over a randomly seeded "
               "std HashMap/HashSet inside the type checker (typing/**) and the lint analyses (analysis/**) is in a "
               "reviewed order-insensitive position (C14.R1 restricted to those modules).")
NOT_DECIDED = ("termination, soundness of the assigned types and absence of false positives on well-typed code: "
               "semantic properties of the type system, not decided by static analysis of the checker's shape")


def _field_flow(f, call_re, arg_index, field):
    """does argument `arg_index` of the (single kind of) call matching call_re derive from a read of `field`?"""
    from kern import origins
    out = []
    for c in f.calls:
        if c.bb in f.cleanup or not re.search(call_re, c.name) or len(c.args) <= arg_index:
            continue
        seen, work, hit = set(), [c.args[arg_index]], False
        while work:
            op = work.pop()
            for l in re.findall(r"_\d+", op):
                if l in seen:
                    continue
                seen.add(l)
                for st in f.stmts:
                    if st.lhs_local == l:
                        if field in st.text():
                            hit = True
                        work.append(st.text())
                for d in f.calls:
                    if d.dest_local == l and re.search(r"(Deref>::deref|as_str|as_ref|borrow)$", d.name):
                        work.extend(d.args)
        out.append(hit)
    return out


def r2_load_alias(ctx, F):
    """`load("m", local = "their")`: the evaluator looks `their` up in the loaded module and binds `local`
    (Compiler::eval_load: load_symbol(their), slot of local). The type checker must type `local` with the type the
    loaded module's interface gives `their` (GlobalTypesBuilder::load: Interface::get(their)); looking the interface up
    under the local name gives an aliased import the type of another export (false errors / wrong exported types)."""
    ev = F.one(r"eval::compiler::module::<impl eval::compiler::Compiler<'v, '_, '_, '_>>::eval_load$")
    ref = _field_flow(ev, r"environment::modules::Module::<'v>::load_symbol$", 2, "LoadArgP::their}")
    ctx.check(bool(ref) and all(ref), "C17.R2", "reference:eval-load-looks-up-their",
              "the evaluator looks the exported (`their`) name up in the loaded module",
              "eval_load no longer passes LoadArgP.their to load_symbol: the reference the typing rule compares against "
              "has changed", fn=ev)
    ty = F.one(r"typing::fill_types_for_lint::GlobalTypesBuilder::<'a, 'v>::load$")
    got = _field_flow(ty, r"typing::interface::Interface::get$", 1, "LoadArgP::their}")
    ctx.check(bool(got) and all(got), "C17.R2", "typing:load-looks-up-their",
              "the type of a loaded symbol is looked up under its exported (`their`) name",
              "GlobalTypesBuilder::load looks the loaded module's interface up with a key that does not come from "
              "LoadArgP.their (the exported name): `load(\"m\", a = \"b\")` types `a` as m's `a`, not m's `b`", fn=ty)
    bind = _field_flow(ty, r"GlobalTypesBuilder::<'a, 'v>::assign_ident_value$", 1, "LoadArgP::local}")
    ctx.check(bool(bind) and all(bind), "C17.R2", "typing:load-binds-local",
              "the looked-up type is bound to the local name", "GlobalTypesBuilder::load no longer binds LoadArgP.local",
              fn=ty)


def r3_no_unwrap_of_resolution_payload(ctx, F):
    """the type checker runs on every parseable module, including ones whose identifiers scope resolution could not
    resolve (undefined variables are reported, not fatal): the payload slot of an identifier / assignment target is an
    Option, and typing code never unwraps it"""
    n = bad = 0
    for f in F.fns.values():
        if f.crate != "starlark" or "src/typing/" not in f.span:
            continue
        for c in f.calls:
            if c.bb in f.cleanup or c.indirect or not re.search(r"Option::<.*>::(unwrap|expect|unwrap_unchecked)$", c.name):
                continue
            n += 1
            seen, work, pay = set(), re.findall(r"_\d+", c.args[0]), False
            while work:
                l = work.pop()
                if l in seen:
                    continue
                seen.add(l)
                for st in f.stmts:
                    if st.lhs_local == l:
                        if re.search(r"(IdentP|AssignIdentP)::payload\}", st.text()):
                            pay = True
                        work += re.findall(r"_\d+", st.text())
                for d in f.calls:
                    if d.dest_local == l and re.search(r"(as_ref|as_deref|as_mut|Deref>::deref|cloned|copied)$", d.name):
                        work += [x for a in d.args for x in re.findall(r"_\d+", a)]
            if pay:
                bad += 1
                ctx.bad("C17.R3", "unwrap-of-resolution-payload:" + short_fn(top_fn(F, f).qpath),
                        "`%s` unwraps the scope-resolution payload of an identifier: for an identifier that was not "
                        "resolved (an undefined variable, which is an ordinary diagnostic) the type checker panics"
                        % short_fn(top_fn(F, f).qpath), fn=f, line=c.line)
    ctx.floor("C17.R3", "unwrap/expect calls in the type checker inspected", n, 1)
    if not bad:
        ctx.ok("C17.R3", "no-unwrap-of-resolution-payload", "no unwrap of an identifier's resolution payload in typing/")


def run(ctx):
    F = ctx.facts("core")
    r2_load_alias(ctx, F)
    r3_no_unwrap_of_resolution_payload(ctx, F)
    total, nrand = r1(ctx, F, rule="C17.R1", only_files=r"starlark/src/(typing|analysis)/")
    ctx.floor("C17.R1", "HashMap/HashSet iteration sites in typing/ and analysis/", total, 7, inventory=True)
    ctx.info["random_hasher_iteration_sites"] = nrand
