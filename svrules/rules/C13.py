"""C13 - frozen values stay alive while reachable (structural clauses)."""
import re

from kern import calls_by_name, callers, forward_locals, locals_in, origins, outcome_edges, short_fn, top_fn

DESCRIPTION = ("C13 clauses decided: R1 at each site that hands a frozen value of heap A to heap/owner B the "
               "add_reference call dominates the hand-out (12 instances, 3 shapes) and add_reference itself inserts "
               "the reference on every path on which it is not already present; R2 every use of the unsafe "
               "owner-pairing constructors (OwnedFrozen/OwnedFrozenRef/HeapEdge::unchecked_new) is dominated by an "
               "add_reference or is in the reviewed owner-paired table; R3 sealing a FrozenHeap carries refs and "
               "arena into the sealed heap and takes the empty-heap shortcut only when both are empty.")
NOT_DECIDED = ("chunk reference counts across drop orders, use-after-free under adversarial histories: needs execution "
               "with poisoned arenas (a different technique family)")

ADDREF = r"heap_type::(Heap::<'v>|FrozenHeap)::add_reference$"

# (key, function regex, shape, sink regex / None)
INSTANCES = [
    ("load_symbol", r"environment::modules::Module::<'v>::load_symbol$", "dominates", r"Value::<'v>::new_frozen$"),
    ("import_public_symbols", r"environment::modules::Module::<'v>::import_public_symbols$", "dominates",
     r"Module::<'v>::set_private$"),
    ("from_globals", r"environment::modules::FrozenModule::from_globals::\{closure#0\}$", "dominates",
     r"Module::<'v>::set$|Module::<'v>::freeze_named$"),
    ("eval_module", r"starlark::eval::<impl eval::runtime::evaluator::Evaluator<'v, 'a, 'e>>::eval_module$",
     "dominates", r"<impl eval::compiler::Compiler<'v, '_, '_, '_>>::eval_module$"),
    ("OwnedFrozen::add_to_heap", r"heap_type::OwnedFrozen::<T>::add_to_heap$", "dominates-transmute", None),
    ("OwnedFrozenRef::add_to_heap", r"heap_type::OwnedFrozenRef::<'f, T>::add_to_heap$", "dominates-transmute", None),
    ("OwnedFrozenRef::add_to_frozen_heap", r"heap_type::OwnedFrozenRef::<'f, T>::add_to_frozen_heap$",
     "dominates-transmute", None),
    ("OwnedFrozenReconstructor::edge", r"heap_type::OwnedFrozenReconstructor::<'fv>::edge$", "dominates",
     r"HeapEdge::<'a, 'b>::unchecked_new$|HeapEdge::<.*>::unchecked_new$"),
    ("OwnedFrozenReconstructor::frozen_edge", r"heap_type::OwnedFrozenReconstructor::<'fv>::frozen_edge$",
     "dominates", r"HeapEdge::<.*>::unchecked_new$"),
    ("GlobalsStatic::populate", r"environment::globals::GlobalsStatic::populate$", "before-return", None),
    ("MethodsStatic::populate", r"environment::methods::MethodsStatic::populate$", "before-return", None),
    ("freeze_impl", r"environment::modules::Module::<'v>::freeze_impl$", "loop-before-sink",
     r"slots::MutableSlots::<'v>::freeze$"),
]

# C13.R2: owner-paired uses of the unsafe constructors that need no add_reference, with reasons
OWNER_PAIRED = {
    r"environment::modules::FrozenModule::own_value$":
        "pairs a value of this module with this module's own heap ref (dupe)",
    r"environment::globals::Globals::get_owned$": "pairs a global with the Globals' own heap ref",
    r"heap_type::OwnedFrozen::<T>::build$": "value allocated on the heap that is sealed and paired in the same body",
    r"heap_type::OwnedFrozen::<T>::try_by_value_with_reconstructor$":
        "re-pairs the projection of an owned value with the same owner",
    r"heap_type::OwnedFrozenReconstructor::<'fv>::reconstruct$": "seals the reconstructor's heap, which holds the edges",
    r"heap_type::OwnedFrozenRef::<'f, T>::to_owned$": "copies owner + value of an existing owned ref",
    r"heap_type::OwnedFrozenRef::<'f, T>::try_map$": "projection of an owned ref keeps the same owner",
    r"environment::modules::FrozenModule::get_option_ref$": "pairs a slot value with the module's own heap ref",
    r"eval::runtime::evaluator::Evaluator::<'v, 'a, 'e>::frozen_heap_edge$":
        "edge from the module's unfrozen heap to its own frozen heap (same module owns both)",
    r"owned_frozen::<impl pagable::PagableDeserialize<'de> for .*>::pagable_deserialize$":
        "deserialisation re-creates owner and value together from one stream",
}


def r1(ctx, F):
    from kern import must_call_summary
    wrappers = must_call_summary(F, ADDREF)

    def addref_calls(g):
        return [c for c in g.calls if c.bb not in g.cleanup and not c.indirect
                and (re.search(ADDREF, c.name) or c.callee_uid() in wrappers)]

    sites = callers(F, ADDREF)
    ctx.floor("C13.R1", "add_reference call sites", len(sites), 12, inventory=True)
    for key, fpat, shape, spat in INSTANCES:
        f = F.one(fpat)
        adds = addref_calls(f)
        if not adds:
            # the reference may be taken by every caller before it calls this function (refactor-robustness)
            sites = [(g, c) for g in F.fns.values() for c in g.calls if not c.indirect and c.callee_uid() == f.uid]
            good = bool(sites) and all(
                any(g.dominates(a.bb, c.bb) and a.bb != c.bb for a in addref_calls(g)) for g, c in sites)
            ctx.check(good, "C13.R1", key,
                      "add_reference dominates every call of this function in its callers",
                      "no add_reference dominates the hand-out: neither in this function nor before every call of it "
                      "in its callers (a value is handed to the receiving heap on a path that never records the "
                      "dependency: use-after-free once the source module is dropped)", fn=f)
            continue
        if shape == "dominates":
            sinks = [c for c in calls_by_name(f, spat) if c.bb not in f.cleanup]
            if not sinks:
                ctx.bad("C13.R1", key + ":anchor", "anchor-missing: hand-out call %s not found" % spat, fn=f)
                continue
            for s in sinks:
                good = any(f.dominates(a.bb, s.bb) and a.bb != s.bb for a in adds)
                ctx.check(good, "C13.R1", "%s:%s" % (key, s.name.split("::")[-1]),
                          "add_reference dominates the hand-out of the frozen value",
                          "the frozen value is handed out on a path that has not added a reference to its heap "
                          "(use-after-free once the source module is dropped)", fn=f, line=s.line)
        elif shape == "dominates-transmute":
            casts = [st for st in f.stmts if st.kind.startswith("cast Transmute") and st.bb not in f.cleanup]
            rets = f.returns()
            good = f.must_pass_from_entry([a.bb for a in adds], rets)
            ctx.check(good, "C13.R1", key, "add_reference is called on every path before the rebranded value is returned",
                      "a path returns the value rebranded to the target heap's lifetime without add_reference",
                      fn=f)
        elif shape == "before-return":
            ctx.check(f.must_pass_from_entry([a.bb for a in adds], f.returns()), "C13.R1", key,
                      "add_reference on every path before the populated environment becomes visible",
                      "a path populates the static environment without referencing the heap of its members", fn=f)
        elif shape == "loop-before-sink":
            # the accessor is recognised by what it is, not by its name: a method of the unfrozen Heap whose result
            # carries FrozenHeapRef values
            ref = [c for c in f.calls if c.bb not in f.cleanup and not c.indirect
                   and re.search(r"heap_type::Heap::<'v>::\w+$", c.name)
                   and "FrozenHeapRef" in f.locals.get(c.dest_local, "")]
            sinks = calls_by_name(f, spat)
            nxt = [c for c in f.calls if re.search(r"Iterator>::next$", c.name) and c.bb not in f.cleanup]
            if not ref or not sinks:
                ctx.bad("C13.R1", key + ":anchor", "anchor-missing: referenced_heaps / MutableSlots::freeze", fn=f)
                continue
            # the loop over referenced_heaps() precedes the freeze of the slots, and the add_reference argument
            # is the loop element
            loop_next = [n for n in nxt if any(x in forward_locals(f, [ref[0].dest_local], through_all_calls=True)
                                               for a in n.args for x in locals_in(a))]
            good = bool(loop_next) and all(f.dominates(ref[0].bb, s.bb) for s in sinks) and all(
                any(f.dominates(n.bb, s.bb) for n in loop_next) for s in sinks)
            arg_ok = False
            for a in adds:
                t = forward_locals(f, [n.dest_local for n in loop_next], through_all_calls=False)
                if any(x in t for x in locals_in(a.args[-1])):
                    arg_ok = True
            ctx.check(good and arg_ok, "C13.R1", key,
                      "the loop copying heap.referenced_heaps() into the frozen heap runs before the slots are frozen",
                      "freeze_impl no longer copies every heap reference of the unfrozen heap into the frozen heap "
                      "before freezing (values loaded from other modules dangle after those modules are dropped)",
                      fn=f)
    # add_reference bodies: the only ways to return without inserting are "already present" and "the null heap
    # (static values) is being referenced"
    from kern import bool_call_edges, switch_info, enum_variant_names
    for pat in (r"heap_type::Heap::<'v>::add_reference$", r"heap_type::FrozenHeap::add_reference$"):
        f = F.one(pat)
        cont = [c for c in f.calls if re.search(r"SmallSet::<T>::contains$", c.name)]
        ins = [c for c in f.calls if re.search(r"SmallSet::<T>::insert$", c.name)]
        good = False
        if cont and ins:
            allowed = set(bool_call_edges(F, f, cont[0], "true"))
            # `heap.0.is_none()`: the None edge of a switch on the Option inside the FrozenHeapRef argument
            for b in f.terms:
                info = switch_info(f, b)
                from kern import resolve_place
                if info and info["kind"] == "enum" and info["place"] and "{values::layout::heap::heap_type::FrozenHeapRef::0}" in resolve_place(
                        f, info["place"]):
                    names = enum_variant_names(F, info["ty"])
                    for v, t in info["targets"].items():
                        if names.get(v) == "None":
                            allowed.add((b, t))
                    if "None" in names.values() and not any(names.get(v) == "None" for v in info["targets"]):
                        allowed.add((b, info["otherwise"]))
            for c in f.calls:
                if re.search(r"Option::<T>::is_none$", c.name):
                    allowed |= bool_call_edges(F, f, c, "true")
                elif re.search(r"Option::<T>::is_some$", c.name):
                    allowed |= bool_call_edges(F, f, c, "false")
            r = f.reach(0, cut_blocks={c.bb for c in ins}, cut_edges=allowed)
            good = not (set(f.returns()) & r)
        ctx.check(good, "C13.R1", "add_reference-inserts:" + f.qpath.split("heap_type::")[1],
                  "every path returns through insert, the already-present edge or the null-heap edge",
                  "add_reference can return without recording the reference for a reason other than 'already "
                  "present' / 'null heap' (e.g. a size test): a heap that only forwards references to other heaps "
                  "would be dropped from the dependency chain", fn=f)


def r2(ctx, F):
    pats = [(r"heap_type::OwnedFrozen::<T>::unchecked_new$", 8), (r"heap_type::OwnedFrozenRef::<'f, T>::unchecked_new$", 2),
            (r"heap::edge::HeapEdge::<.*>::unchecked_new$", 3)]
    for pat, floor in pats:
        sites = callers(F, pat)
        short = re.search(r"(\w+)::<", pat).group(1)
        ctx.floor("C13.R2", short + "::unchecked_new call sites", len(sites), floor)
        for f, c in sites:
            t = top_fn(F, f)
            adds = [a for a in calls_by_name(f, ADDREF) if a.bb not in f.cleanup]
            if adds and any(f.dominates(a.bb, c.bb) and a.bb != c.bb for a in adds):
                ctx.ok("C13.R2", "%s:%s" % (short, t.qpath), "dominated by add_reference on the owner")
                continue
            reasons = [r for p, r in OWNER_PAIRED.items() if re.search(p, t.qpath)]
            ctx.check(bool(reasons), "C13.R2", "%s:%s" % (short, t.qpath),
                      "owner-paired by construction: " + (reasons[0] if reasons else ""),
                      "new use of the unsafe constructor %s::unchecked_new that is neither dominated by an "
                      "add_reference nor in the reviewed owner-paired table: the value may outlive its heap" % short,
                      fn=f, line=c.line)


def r3(ctx, F):
    f = F.one(r"heap_type::FrozenHeap::into_ref_impl$")
    aggs = [st for st in f.stmts if st.kind == "agg adt values::layout::heap::heap_type::FrozenFrozenHeap::FrozenFrozenHeap"]
    if len(aggs) != 1:
        ctx.bad("C13.R3", "into_ref_impl:anchor", "anchor-missing: FrozenFrozenHeap construction", fn=f)
        return
    adt = F.adt(r"starlark::values::layout::heap::heap_type::FrozenFrozenHeap$")
    names = [fd["name"] for fd in adt.fields]
    ops = aggs[0].ops[0].split(" | ")
    for field, src in (("refs", "{values::layout::heap::heap_type::FrozenHeap::refs}"),
                       ("arena", "{values::layout::heap::heap_type::FrozenHeap::arena}")):
        if field not in names:
            ctx.bad("C13.R3", "into_ref_impl:" + field, "anchor-missing: field %s" % field, fn=f)
            continue
        op = ops[names.index(field)]
        # backward closure over all statements/calls (through collect/into_iter/into_inner ...)
        seen = set()
        work = locals_in(op)
        hit = False
        while work:
            l = work.pop()
            if l in seen:
                continue
            seen.add(l)
            for st in f.stmts:
                if st.lhs_local == l:
                    if src in st.text():
                        hit = True
                    work += locals_in(st.text())
            for c in f.calls:
                if c.dest_local == l:
                    for a in c.args:
                        if src in a:
                            hit = True
                        work += locals_in(a)
        ctx.check(hit, "C13.R3", "into_ref_impl:" + field,
                  "the sealed heap's `%s` flows from self.%s" % (field, field),
                  "the sealed heap's `%s` no longer comes from the FrozenHeap being sealed (references or memory "
                  "dropped at seal time)" % field, fn=f, line=aggs[0].line)
    # the default (empty) heap is returned only when both emptiness tests are true
    dflt = [c for c in f.calls if re.search(r"FrozenHeapRef as std::default::Default>::default$", c.name)]
    e1 = [c for c in f.calls if re.search(r"Arena::<A>::is_empty$", c.name)]
    e2 = [c for c in f.calls if re.search(r"SmallSet::<T>::is_empty$", c.name)]
    good = False
    if dflt and e1 and e2:
        from kern import bool_call_edges
        t1 = bool_call_edges(F, f, e1[0], "true")
        t2 = bool_call_edges(F, f, e2[0], "true")
        good = bool(t1) and bool(t2) and all(
            d.bb not in f.reach(0, cut_edges=t1) and d.bb not in f.reach(0, cut_edges=t2) for d in dflt)
    ctx.check(good, "C13.R3", "into_ref_impl:empty-shortcut",
              "the empty-heap shortcut is taken only when both arena and refs are empty",
              "the empty-heap shortcut can be taken while the heap still holds memory or references", fn=f)


REFSET = re.compile(r"SmallSet(::)?<[^>]*heap_type::FrozenHeapRef>")
REFSET_WRITERS = {"Heap::add_reference", "FrozenHeap::add_reference"}
REFSET_SHRINK = re.compile(r"::(remove\w*|clear|take|retain\w*|pop|drain|shift_remove\w*|swap_remove\w*|truncate|"
                           r"sort\w*|reverse)$")


def r4_refs_only_grow(ctx, F):
    """the set of frozen heaps a live heap depends on only grows: the refs sets of Heap and FrozenHeap are written only
    by add_reference (insert), consumed only when a FrozenHeap is sealed, and never taken, cleared or replaced"""
    n = 0
    for f in F.fns.values():
        if f.crate != "starlark":
            continue
        for c in f.calls:
            if c.indirect or c.bb in f.cleanup or not REFSET.search(c.full):
                continue
            n += 1
            s = short_fn(top_fn(F, f).qpath)
            last = c.name.split("::")[-1]
            if re.search(r"RefCell::<.*>::(borrow_mut|get_mut|replace\w*|take|swap)$|DerefMut>::deref_mut$", c.full):
                ctx.check(s in REFSET_WRITERS, "C13.R4", "refs-writer:%s:%s" % (s, last),
                          "the reference set is borrowed mutably only by add_reference",
                          "`%s` takes mutable access to a heap's set of referenced frozen heaps (`%s`): only "
                          "add_reference may, and it only inserts - a heap that drops a reference while it is alive "
                          "lets values added to it dangle" % (s, last), fn=f, line=c.line)
            elif re.search(r"RefCell::<.*>::into_inner$", c.full):
                ctx.check(s == "FrozenHeap::into_ref_impl", "C13.R4", "refs-consumer:%s" % s,
                          "the set is consumed only when the FrozenHeap is sealed into a FrozenHeapRef",
                          "`%s` consumes a heap's set of referenced frozen heaps" % s, fn=f, line=c.line)
            elif re.search(r"^(std|core)::mem::(take|replace|swap)", c.name) or REFSET_SHRINK.search(c.name):
                ctx.bad("C13.R4", "refs-shrink:%s:%s" % (s, last),
                        "`%s` removes entries from (or replaces) a heap's set of referenced frozen heaps with `%s`: the "
                        "heap stays alive but no longer keeps the heaps of the values added to it alive" % (s, c.name),
                        fn=f, line=c.line)
    ctx.floor("C13.R4", "calls on the reference sets inspected", n, 12, inventory=True)
    ctx.ok("C13.R4", "refs-only-grow", "no call takes, clears, replaces or shrinks a reference set")


def run(ctx):
    F = ctx.facts("core")
    r4_refs_only_grow(ctx, F)
    r1(ctx, F)
    r2(ctx, F)
    r3(ctx, F)
