"""C16 - runtime type checks (structural clauses)."""
import re

from kern import CallGraph, ValueBearing, callers, field_reads_of, field_uses_of, natives, short_fn, top_fn

DESCRIPTION = ("C16 clauses decided: R1 every TypeMatcher::matches impl consults every component of its matcher struct "
               "(e.g. dict[K, V] tests both K and V); R2 isinstance, the bytecode type-check instructions, parameter "
               "and return annotation checks and record field checks all funnel into TypeCompiled::matches / "
               "check_type (one dispatch point, vtable op type_matches_value).")
NOT_DECIDED = "that each specialised matcher denotes the documented set of values: value-level"

TM = r"values::typing::type_compiled::matcher::TypeMatcher$"


def r1(ctx, F):
    vb = ValueBearing(F)
    tm = [i for i in F.impls if re.search(TM, i["trait"]) and i["crate"] == "starlark"]
    ctx.floor("C16.R1", "TypeMatcher impls", len(tm), 29, inventory=True)
    n = 0
    for i in tm:
        if i["selfadt"] == "-":
            continue
        a = vb.adt_for(i["crate"], i["selfadt"])
        if a is None or not a.fields:
            continue
        c = [f for f in F.fns.values() if f.crate == i["crate"] and f.trait == i["trait"] and f.selfty == i["selfty"]
             and f.name == "matches" and f.kind != "Closure"]
        if len(c) != 1:
            ctx.bad("C16.R1", "body:" + i["selfty"], "anchor-missing: matches body of " + i["path"])
            continue
        n += 1
        reads = field_uses_of(F, c[0], a.path, "_1", depth=2)
        for fd in a.fields:
            if fd["ty"].startswith("std::marker::PhantomData"):
                continue
            ctx.check(fd["name"] in reads, "C16.R1", "matcher-component:%s.%s" % (a.path.split("::")[-1], fd["name"]),
                      "the matcher consults this component",
                      "%s::matches never reads component `%s` (%s): values are accepted without that part of the type "
                      "being checked" % (a.path, fd["name"], fd["ty"][:60]), fn=c[0])
    ctx.floor("C16.R1", "matcher structs with components", n, 13)


def zip_guarded(F, f, c):
    """the zip call `c` in f lies on the true edge of an equality comparison of two lengths"""
    from kern import bool_local_edges, origins
    for st in f.stmts:
        if not re.match(r"binop (Eq|Ne)", st.kind) or "usize" not in st.text() or st.bb in f.cleanup:
            continue
        srcs = [o for op in st.ops[0].split(" , ") for o in origins(f, op, pass_calls=None)]
        if sum(1 for o in srcs if o[0] == "call" and re.search(r"::len$", o[1].name)) < 2:
            continue
        te = bool_local_edges(f, st.lhs_local, "true" if st.kind.startswith("binop Eq") else "false")
        if te and c.bb not in f.reach(0, cut_edges=te):
            return True
    return False


def r1b(ctx, F):
    """positional sequence matchers check the arity: a zip over (elements, component matchers) is guarded by a
    length equality (zip silently truncates to the shorter side)"""
    n = 0
    for f in F.fns.values():
        if f.crate != "starlark":
            continue
        t = top_fn(F, f)
        if not re.search(r"as values::typing::type_compiled::matcher::TypeMatcher>::matches$", t.qpath):
            continue
        for c in f.calls:
            if re.search(r"Iterator::zip$|iter::zip$", c.name) and c.bb not in f.cleanup:
                n += 1
                ctx.check(zip_guarded(F, f, c), "C16.R1", "zip-arity-guard:" + short_fn(t.qpath),
                          "the element-wise zip is guarded by an equality test of the two lengths",
                          "`%s` zips the value's elements with the component matchers without first comparing the "
                          "lengths: zip stops at the shorter side, so tuples of the wrong arity are accepted"
                          % short_fn(t.qpath), fn=f, line=c.line)
    ctx.floor("C16.R1", "zip calls in matchers", n, 1)


def r2(ctx, F):
    cg = CallGraph(F, expand={"TypeMatcher", "TypeMatcherDyn", "TypeCompiledDyn", "TypeCompiledImpl"})
    matches = F.one(r"values::typing::type_compiled::compiled::TypeCompiled::<V>::matches$")
    tramp = cg.trampolines.get("type_matches_value")
    ctx.check(tramp is not None and tramp in cg.G[matches.uid], "C16.R2", "TypeCompiled::matches:dispatches",
              "TypeCompiled::matches dispatches through the type_matches_value vtable op",
              "TypeCompiled::matches no longer dispatches through type_matches_value", fn=matches)
    # every entry point reaches TypeCompiled::matches
    entries = {
        "InstrIsInstance": r"<eval::bc::instr_impl::InstrIsInstanceImpl as eval::bc::instr_impl::InstrNoFlowImpl>::run_with_args$",
        "InstrCheckType": r"<eval::bc::instr_impl::InstrCheckTypeImpl as eval::bc::instr_impl::InstrNoFlowImpl>::run_with_args$",
        "InstrReturnCheckType": r"<eval::bc::instr_impl::InstrReturnCheckType as eval::bc::instr::BcInstr>::run$",
        "check_parameter_types": r"eval::compiler::def::DefGen::<V>::check_parameter_types$",
        "check_return_type": r"eval::compiler::def::DefGen::<V>::check_return_type$",
        "TypeCompiled::check_type": r"type_compiled::compiled::TypeCompiled::<V>::check_type$",
    }
    for name, pat in entries.items():
        fs = F.find(pat)
        if len(fs) != 1:
            ctx.bad("C16.R2", "entry:%s:anchor" % name, "anchor-missing: %s (%d found)" % (name, len(fs)))
            continue
        R = cg.reach([fs[0].uid])
        ctx.check(matches.uid in R, "C16.R2", "entry:" + name,
                  "reaches TypeCompiled::matches",
                  "`%s` no longer reaches TypeCompiled::matches: this check path decides type membership on its own"
                  % name, fn=fs[0])
    isinst = [n for n in natives(F) if n.name == "isinstance" and n.impl is not None]
    ctx.check(bool(isinst) and matches.uid in cg.reach([isinst[0].impl.uid]), "C16.R2", "entry:isinstance",
              "the isinstance builtin reaches TypeCompiled::matches",
              "isinstance no longer goes through TypeCompiled::matches")
    # the vtable op is called only from the funnel
    if tramp:
        for f in F.fns.values():
            for c in f.calls:
                if not c.indirect and c.callee_uid() == tramp:
                    s = short_fn(top_fn(F, f).qpath)
                    ctx.check(s in ("TypeCompiled::matches",) or "__starlark_invoke_impl" in s, "C16.R2",
                              "type_matches_value<-" + s, "vtable op called from the funnel (or the eval_type native)",
                              "`%s` calls the type_matches_value vtable op directly" % s, fn=f, line=c.line)


def run(ctx):
    F = ctx.facts("core")
    r1(ctx, F)
    r1b(ctx, F)
    r2(ctx, F)
