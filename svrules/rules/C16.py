"""C16 - runtime type checks (structural clauses)."""
import re

from kern import CallGraph, ValueBearing, callers, field_reads_of, field_uses_of, natives, short_fn, top_fn

DESCRIPTION = ("C16 clauses decided: R1 every TypeMatcher::matches impl consults every component of its matcher struct "
               "(e.g. dict[K, V] tests both K and V); R2 isinstance, the bytecode type-check instructions, parameter "
               "and return annotation checks and record field checks all funnel into TypeCompiled::matches / "
               "check_type (one dispatch point, vtable op type_matches_value).")
NOT_DECIDED = "that each specialised matcher denotes the documented set of values: value-level"

TM = r"values::typing::type_compiled::matcher::TypeMatcher$"


def r1(ctx, F):
    vb = ValueBearing(F)
    tm = [i for i in F.impls if re.search(TM, i["trait"]) and i["crate"] == "starlark"]
    ctx.floor("C16.R1", "TypeMatcher impls", len(tm), 29, inventory=True)
    n = 0
    for i in tm:
        if i["selfadt"] == "-":
            continue
        a = vb.adt_for(i["crate"], i["selfadt"])
        if a is None or not a.fields:
            continue
        c = [f for f in F.fns.values() if f.crate == i["crate"] and f.trait == i["trait"] and f.selfty == i["selfty"]
             and f.name == "matches" and f.kind != "Closure"]
        if len(c) != 1:
            ctx.bad("C16.R1", "body:" + i["selfty"], "anchor-missing: matches body of " + i["path"])
            continue
        n += 1
        reads = field_uses_of(F, c[0], a.path, "_1", depth=2)
        for fd in a.fields:
            if fd["ty"].startswith("std::marker::PhantomData"):
                continue
            ctx.check(fd["name"] in reads, "C16.R1", "matcher-component:%s.%s" % (a.path.split("::")[-1], fd["name"]),
                      "the matcher consults this component",
                      "%s::matches never reads component `%s` (%s): values are accepted without that part of the type "
                      "being checked" % (a.path, fd["name"], fd["ty"][:60]), fn=c[0])
    ctx.floor("C16.R1", "matcher structs with components", n, 13)


def zip_guarded(F, f, c):
    """the zip call `c` in f lies on the true edge of an equality comparison of two lengths"""
    from kern import bool_local_edges, origins
    for st in f.stmts:
        if not re.match(r"binop (Eq|Ne)", st.kind) or "usize" not in st.text() or st.bb in f.cleanup:
            continue
        srcs = [o for op in st.ops[0].split(" , ") for o in origins(f, op, pass_calls=None)]
        if sum(1 for o in srcs if o[0] == "call" and re.search(r"::len$", o[1].name)) < 2:
            continue
        te = bool_local_edges(f, st.lhs_local, "true" if st.kind.startswith("binop Eq") else "false")
        if te and c.bb not in f.reach(0, cut_edges=te):
            return True
    return False


def r1b(ctx, F):
    """positional sequence matchers check the arity: a zip over (elements, component matchers) is guarded by a
    length equality (zip silently truncates to the shorter side)"""
    n = 0
    for f in F.fns.values():
        if f.crate != "starlark":
            continue
        t = top_fn(F, f)
        if not re.search(r"as values::typing::type_compiled::matcher::TypeMatcher>::matches$", t.qpath):
            continue
        for c in f.calls:
            if re.search(r"Iterator::zip$|iter::zip$", c.name) and c.bb not in f.cleanup:
                n += 1
                ctx.check(zip_guarded(F, f, c), "C16.R1", "zip-arity-guard:" + short_fn(t.qpath),
                          "the element-wise zip is guarded by an equality test of the two lengths",
                          "`%s` zips the value's elements with the component matchers without first comparing the "
                          "lengths: zip stops at the shorter side, so tuples of the wrong arity are accepted"
                          % short_fn(t.qpath), fn=f, line=c.line)
    ctx.floor("C16.R1", "zip calls in matchers", n, 1)


def r2(ctx, F):
    cg = CallGraph(F, expand={"TypeMatcher", "TypeMatcherDyn", "TypeCompiledDyn", "TypeCompiledImpl"})
    matches = F.one(r"values::typing::type_compiled::compiled::TypeCompiled::<V>::matches$")
    tramp = cg.trampolines.get("type_matches_value")
    ctx.check(tramp is not None and tramp in cg.G[matches.uid], "C16.R2", "TypeCompiled::matches:dispatches",
              "TypeCompiled::matches dispatches through the type_matches_value vtable op",
              "TypeCompiled::matches no longer dispatches through type_matches_value", fn=matches)
    # every entry point reaches TypeCompiled::matches
    entries = {
        "InstrIsInstance": r"<eval::bc::instr_impl::InstrIsInstanceImpl as eval::bc::instr_impl::InstrNoFlowImpl>::run_with_args$",
        "InstrCheckType": r"<eval::bc::instr_impl::InstrCheckTypeImpl as eval::bc::instr_impl::InstrNoFlowImpl>::run_with_args$",
        "InstrReturnCheckType": r"<eval::bc::instr_impl::InstrReturnCheckType as eval::bc::instr::BcInstr>::run$",
        "check_parameter_types": r"eval::compiler::def::DefGen::<V>::check_parameter_types$",
        "check_return_type": r"eval::compiler::def::DefGen::<V>::check_return_type$",
        "TypeCompiled::check_type": r"type_compiled::compiled::TypeCompiled::<V>::check_type$",
    }
    for name, pat in entries.items():
        fs = F.find(pat)
        if len(fs) != 1:
            ctx.bad("C16.R2", "entry:%s:anchor" % name, "anchor-missing: %s (%d found)" % (name, len(fs)))
            continue
        R = cg.reach([fs[0].uid])
        ctx.check(matches.uid in R, "C16.R2", "entry:" + name,
                  "reaches TypeCompiled::matches",
                  "`%s` no longer reaches TypeCompiled::matches: this check path decides type membership on its own"
                  % name, fn=fs[0])
    isinst = [n for n in natives(F) if n.name == "isinstance" and n.impl is not None]
    ctx.check(bool(isinst) and matches.uid in cg.reach([isinst[0].impl.uid]), "C16.R2", "entry:isinstance",
              "the isinstance builtin reaches TypeCompiled::matches",
              "isinstance no longer goes through TypeCompiled::matches")
    # the vtable op is called only from the funnel
    if tramp:
        for f in F.fns.values():
            for c in f.calls:
                if not c.indirect and c.callee_uid() == tramp:
                    s = short_fn(top_fn(F, f).qpath)
                    ctx.check(s in ("TypeCompiled::matches",) or "__starlark_invoke_impl" in s, "C16.R2",
                              "type_matches_value<-" + s, "vtable op called from the funnel (or the eval_type native)",
                              "`%s` calls the type_matches_value vtable op directly" % s, fn=f, line=c.line)


def r3_star_params(ctx, F):
    """the annotation T of `*args: T` / `**kwargs: T` is the type of each collected argument (the static checker types
    the parameters tuple[T, ...] / dict[str, T]): the runtime parameter check either applies T to every element of the
    args tuple and every value of the kwargs dict, or the compiler wraps T into the container type when it compiles
    the parameter. Checking the whole tuple / dict against T rejects every well-typed call."""
    from kern import origins
    cp = F.one(r"eval::compiler::def::DefGen::<V>::check_parameter_types$")
    bodies = [cp] + [g for c in cp.calls if not c.indirect for g in [F.fns.get(c.callee_uid())]
                     if g is not None and g.crate == "starlark" and "eval/compiler/def" in g.span]
    elem = {"tuple": False, "dict": False}
    n = 0
    for g in bodies:
        for c in g.calls:
            if c.bb in g.cleanup or not re.search(r"TypeCompiled::<V>::check_type$", c.name) or len(c.args) < 2:
                continue
            n += 1
            os_ = origins(g, c.args[1], pass_calls=re.compile(
                r"(Iterator>::next$|Iterator::next$|IntoIterator>::into_iter$|IntoIterator for .*>::into_iter$|"
                r"Option::<.*>::(map_or|unwrap\w*|map)$|Deref>::deref$|Try>::branch$|iter$|copied$)"),
                through_all_args=True)
            names = {o[1].name for o in os_ if o[0] == "call"}
            if any(re.search(r"tuple::refs::TupleRef::<'v>::(from_value|content)$|Tuple::<'v>::content$", x) for x in names):
                elem["tuple"] = True
            if any(re.search(r"dict::value::Dict::<'v>::values$|DictRef::<'v>::(values|iter)|Dict::<'v>::iter", x)
                   for x in names):
                elem["dict"] = True
    # closure form: `content().iter().try_for_each(|x| ty.check_type(*x, ..))` - a closure of the check that calls
    # check_type is handed to an iterator method whose receiver comes from the tuple content / the dict values
    it_pass = re.compile(r"(Iterator(>)?::\w+$|IntoIterator(>)?::into_iter$|IntoIterator for .*>::into_iter$|::iter$|"
                         r"Deref>::deref$|Option::<.*>::(map_or|unwrap\w*|map)$|Try>::branch$|copied$)")
    for g in bodies:
        cl_locals = {}
        for st in g.stmts:
            if st.kind.startswith("agg closure ") and " @" in st.kind:
                k = F.fns.get(st.kind.rsplit(" @", 1)[1])
                if k is not None and any(re.search(r"TypeCompiled::<V>::check_type$", c.name) for c in k.calls):
                    cl_locals[st.lhs] = k
        for c in g.calls:
            if c.bb in g.cleanup or not re.search(r"Iterator(>)?::(try_for_each|for_each|all|try_fold|map)$", c.name):
                continue
            if not any(a.split()[-1] in cl_locals for a in c.args[1:] if a.startswith(("move ", "copy "))):
                continue
            n += 1
            names = {o[1].name for o in origins(g, c.args[0], pass_calls=it_pass, through_all_args=True) if o[0] == "call"}
            if any(re.search(r"TupleRef::<'v>::(from_value|content)$|Tuple::<'v>::content$", x) for x in names):
                elem["tuple"] = True
            if any(re.search(r"Dict::<'v>::(values|iter)$|DictRef::<'v>::(values|iter)", x) for x in names):
                elem["dict"] = True
    par = F.one(r"eval::compiler::def::<impl eval::compiler::Compiler<'_, '_, '_, '_>>::parameter$")
    wraps = {"tuple": any(re.search(r"typing::ty::Ty::tuple_of$", c.name) for c in par.calls),
             "dict": any(re.search(r"typing::ty::Ty::dict$", c.name) for c in par.calls)}
    for k, what in (("tuple", "*args"), ("dict", "**kwargs")):
        ctx.check(elem[k] or wraps[k], "C16.R3", "star-param-elementwise:" + what,
                  "the annotation of %s is applied %s" % (what, "to each element at run time" if elem[k] else
                                                         "after being wrapped into the container type at compile time"),
                  "the annotation T of `%s: T` is checked against the whole %s: the static checker (Param::args / "
                  "Param::kwargs) reads it as the type of each collected argument, so `def f(%s: int)` rejects every "
                  "call the static checker accepts" % (what, k, what), fn=cp)
    ctx.floor("C16.R3", "check_type calls in the parameter check", n, 1)


def r4_union_exact(ctx, F):
    """normalising a union keeps its alternatives: Ty::unions may sort, deduplicate and drop Never, but building ONE
    container alternative out of two (list[A] | list[B] -> list[A | B]) makes the runtime matcher built from that Ty
    accept values neither alternative denotes"""
    from kern import origins
    fs = F.find(r"typing::ty::Ty::unions(::\{closure#\d+\})?$")
    if not fs:
        ctx.bad("C16.R4", "unions:anchor", "anchor-missing: Ty::unions")
        return
    n = 0
    for f in fs:
        for st in f.stmts:
            m = re.match(r"agg adt typing::basic::TyBasic::(\w+)$", st.kind)
            if not m or st.bb in f.cleanup:
                continue
            n += 1
            merged = False
            for op in " | ".join(st.ops).split(" | "):
                for o in origins(f, op):
                    if o[0] == "call" and re.search(r"typing::arc_ty::ArcTy::union2$|typing::ty::Ty::union2$|"
                                                    r"typing::ty::Ty::unions$", o[1].name):
                        merged = True
            ctx.check(not merged, "C16.R4", "union-merges:" + m.group(1),
                      "alternative kept as written",
                      "Ty::unions merges two `%s` alternatives into one whose parameters are the unions of theirs: "
                      "the type no longer denotes exactly the values of its alternatives" % m.group(1).lower(),
                      fn=f, line=st.line)
    ctx.floor("C16.R4", "TyBasic alternatives built while normalising a union", n, 3)


COARSE_ORD = r"typing::(basic::TyBasic|ty::Ty|starlark_value::TyStarlarkValue|arc_ty::ArcTy)\b"


def r5_no_ordered_dedup_of_types(ctx, F):
    """TyStarlarkValue is equal by type id but ordered by type name only (two host types may share a name), and TyBasic /
    Ty / ArcTy contain it: their Ord is coarser than their Eq. They are therefore never keys of an ordered collection
    (BTreeSet/BTreeMap, which deduplicate by Ord) nor deduplicated by a comparison - a union would silently lose an
    alternative, and values of the lost type stop matching it."""
    ord_impl = [i for i in F.impls if i["crate"] == "starlark" and re.search(r"std::cmp::Ord$", i["trait"])
                and re.search(r"typing::starlark_value::TyStarlarkValue$", i["selfty"])]
    ctx.check(len(ord_impl) == 1, "C16.R5", "anchor:TyStarlarkValue-Ord", "TyStarlarkValue has a hand-written Ord",
              "anchor-missing: Ord impl of TyStarlarkValue (found %d)" % len(ord_impl))
    n = 0
    for f in F.fns.values():
        if f.crate != "starlark":
            continue
        for c in f.calls:
            if c.indirect or c.bb in f.cleanup:
                continue
            if re.search(r"BTree(Set|Map)(::)?<\s*" + COARSE_ORD, c.full) or (
                    re.search(r"::(dedup_by|dedup_by_key|binary_search\w*)$", c.name) and re.search(COARSE_ORD, c.full)):
                n += 1
                ctx.bad("C16.R5", "ordered-collection-of-types:%s:%s" % (short_fn(top_fn(F, f).qpath), c.name.split("::")[-1]),
                        "`%s` keeps typing types in an ordered collection / deduplicates them by comparison (`%s`): their "
                        "Ord compares StarlarkValue types by name only, so two distinct types with the same name collapse "
                        "into one alternative" % (short_fn(top_fn(F, f).qpath), c.full[-110:]), fn=f, line=c.line)
    ctx.ok("C16.R5", "no-ordered-collection-of-types", "no BTreeSet/BTreeMap/dedup_by over TyBasic/Ty/TyStarlarkValue (%d found)" % n)


def r7_type_identity(ctx, F):
    """a record / enum type denotes exactly the instances created by THAT type: the id that instances carry and the
    matcher compares must be unique per created type. An id derived from the call site alone (file + span of the
    `record(...)` call) is shared by every type the same expression creates (`def mk(t): return record(x=t)`), so an
    instance of one is accepted where the other is required."""
    nat = {}
    for n in natives(F):
        if n.impl is not None:
            nat[n.impl.uid] = n.name
    k = 0
    for f, c in callers(F, r"values::types::type_instance_id::TypeInstanceId::from_def_site$"):
        k += 1
        t = top_fn(F, f)
        who = nat.get(t.uid) or short_fn(t.qpath)
        ctx.bad("C16.R7", "type-id-from-call-site:" + who,
                "`%s` derives the identity of the type it creates from its call site only "
                "(TypeInstanceId::from_def_site): two types created by evaluating the same expression twice share the "
                "id, and isinstance / annotations accept instances of one as instances of the other" % who, fn=f, line=c.line)
    ctx.note("C16.R7 inspected %d uses of TypeInstanceId::from_def_site" % k)
    gens = [f for f, c in callers(F, r"values::types::type_instance_id::TypeInstanceId::(r#gen|gen|from_identity)$")]
    ctx.check(k + len(gens) >= 2, "C16.R7", "type-id-sources", "type ids come from from_def_site / from_identity / gen",
              "anchor-missing: no constructor of TypeInstanceId is called")


def run(ctx):
    F = ctx.facts("core")
    r3_star_params(ctx, F)
    r7_type_identity(ctx, F)
    r5_no_ordered_dedup_of_types(ctx, F)
    # the annotation of an assignment survives the re-optimisation on freeze (shared with C02.R10)
    from rules.C02 import r10_optimize_keeps_components
    r10_optimize_keeps_components(ctx, F, rule="C16.R6")
    # annotated defs are never inlined, so their parameter / return checks always run (shared with C02.R11)
    from rules.C02 import r11_no_inlining_of_annotated_defs
    r11_no_inlining_of_annotated_defs(ctx, F, rule="C16.R8")
    r4_union_exact(ctx, F)
    r1(ctx, F)
    r1b(ctx, F)
    r2(ctx, F)
