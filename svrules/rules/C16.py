"""C16 - runtime type checks (structural clauses)."""
import re

from kern import CallGraph, ValueBearing, callers, field_reads_of, natives, short_fn, top_fn

DESCRIPTION = ("C16 clauses decided: R1 every TypeMatcher::matches impl consults every component of its matcher struct "
               "(e.g. dict[K, V] tests both K and V); R2 isinstance, the bytecode type-check instructions, parameter "
               "and return annotation checks and record field checks all funnel into TypeCompiled::matches / "
               "check_type (one dispatch point, vtable op type_matches_value).")
NOT_DECIDED = "that each specialised matcher denotes the documented set of values: value-level"

TM = r"values::typing::type_compiled::matcher::TypeMatcher$"


def r1(ctx, F):
    vb = ValueBearing(F)
    tm = [i for i in F.impls if re.search(TM, i["trait"]) and i["crate"] == "starlark"]
    ctx.floor("C16.R1", "TypeMatcher impls", len(tm), 29, inventory=True)
    n = 0
    for i in tm:
        if i["selfadt"] == "-":
            continue
        a = vb.adt_for(i["crate"], i["selfadt"])
        if a is None or not a.fields:
            continue
        c = [f for f in F.fns.values() if f.crate == i["crate"] and f.trait == i["trait"] and f.selfty == i["selfty"]
             and f.name == "matches" and f.kind != "Closure"]
        if len(c) != 1:
            ctx.bad("C16.R1", "body:" + i["selfty"], "anchor-missing: matches body of " + i["path"])
            continue
        n += 1
        reads = field_reads_of(F, c[0], a.path, "_1", depth=2)
        for fd in a.fields:
            if fd["ty"].startswith("std::marker::PhantomData"):
                continue
            ctx.check(fd["name"] in reads, "C16.R1", "matcher-component:%s.%s" % (a.path.split("::")[-1], fd["name"]),
                      "the matcher consults this component",
                      "%s::matches never reads component `%s` (%s): values are accepted without that part of the type "
                      "being checked" % (a.path, fd["name"], fd["ty"][:60]), fn=c[0])
    ctx.floor("C16.R1", "matcher structs with components", n, 13)


def r2(ctx, F):
    cg = CallGraph(F, expand={"TypeMatcher", "TypeMatcherDyn", "TypeCompiledDyn", "TypeCompiledImpl"})
    matches = F.one(r"values::typing::type_compiled::compiled::TypeCompiled::<V>::matches$")
    tramp = cg.trampolines.get("type_matches_value")
    ctx.check(tramp is not None and tramp in cg.G[matches.uid], "C16.R2", "TypeCompiled::matches:dispatches",
              "TypeCompiled::matches dispatches through the type_matches_value vtable op",
              "TypeCompiled::matches no longer dispatches through type_matches_value", fn=matches)
    # every entry point reaches TypeCompiled::matches
    entries = {
        "InstrIsInstance": r"<eval::bc::instr_impl::InstrIsInstanceImpl as eval::bc::instr_impl::InstrNoFlowImpl>::run_with_args$",
        "InstrCheckType": r"<eval::bc::instr_impl::InstrCheckTypeImpl as eval::bc::instr_impl::InstrNoFlowImpl>::run_with_args$",
        "InstrReturnCheckType": r"<eval::bc::instr_impl::InstrReturnCheckType as eval::bc::instr::BcInstr>::run$",
        "check_parameter_types": r"eval::compiler::def::DefGen::<V>::check_parameter_types$",
        "check_return_type": r"eval::compiler::def::DefGen::<V>::check_return_type$",
        "TypeCompiled::check_type": r"type_compiled::compiled::TypeCompiled::<V>::check_type$",
    }
    for name, pat in entries.items():
        fs = F.find(pat)
        if len(fs) != 1:
            ctx.bad("C16.R2", "entry:%s:anchor" % name, "anchor-missing: %s (%d found)" % (name, len(fs)))
            continue
        R = cg.reach([fs[0].uid])
        ctx.check(matches.uid in R, "C16.R2", "entry:" + name,
                  "reaches TypeCompiled::matches",
                  "`%s` no longer reaches TypeCompiled::matches: this check path decides type membership on its own"
                  % name, fn=fs[0])
    isinst = [n for n in natives(F) if n.name == "isinstance" and n.impl is not None]
    ctx.check(bool(isinst) and matches.uid in cg.reach([isinst[0].impl.uid]), "C16.R2", "entry:isinstance",
              "the isinstance builtin reaches TypeCompiled::matches",
              "isinstance no longer goes through TypeCompiled::matches")
    # the vtable op is called only from the funnel
    if tramp:
        for f in F.fns.values():
            for c in f.calls:
                if not c.indirect and c.callee_uid() == tramp:
                    s = short_fn(top_fn(F, f).qpath)
                    ctx.check(s in ("TypeCompiled::matches",) or "__starlark_invoke_impl" in s, "C16.R2",
                              "type_matches_value<-" + s, "vtable op called from the funnel (or the eval_type native)",
                              "`%s` calls the type_matches_value vtable op directly" % s, fn=f, line=c.line)


def run(ctx):
    F = ctx.facts("core")
    r1(ctx, F)
    r2(ctx, F)
