"""C20 - frozen modules are safe to share between threads (structural clauses)."""
import re

from kern import calls_by_name, enum_values, short_fn, top_fn
from rules.C04 import r4_array, r4_interior

DESCRIPTION = ("C20 clauses decided: R1 inventory of the manual thread-safety assertions (`unsafe impl Send/Sync`): "
               "every unsynchronised cell inside such a type has a reviewed, complete writer set; R2 every static that "
               "is not Freeze is of a race-free cell type (registry nodes, OnceLock/LazyLock, atomics, thread locals, "
               "static strings with an atomic hash cache) or reviewed, and there is no `static mut`; R3 the reference "
               "count decrement that guards deallocation of a shared chunk uses an ordering that both releases and "
               "acquires, and dealloc happens only when the previous count was 1.")
NOT_DECIDED = "absence of data races under real interleavings: needs execution (TSan/loom), a different technique family"

CRATES = ("starlark", "starlark_map", "starlark_syntax")

STATIC_OK = [
    (r"^inventory::|inventory::Node|inventory::Registry", "inventory registry node (atomic linked list, written at load time)"),
    (r"StaticValueEntry", "pagable static value entry (index Cell written once during single-threaded registration)"),
    (r"StarlarkStrNRepr", "static string: the hash cache is an atomic"),
    (r"(GlobalsStatic|MethodsStatic)", "OnceLock-backed lazily built environment"),
    (r"^(std::sync::(LazyLock|OnceLock|Once)|once_cell::sync::(Lazy|OnceCell)|pagable::__internal::once_cell::sync::Lazy)<", "once-initialised cell"),
    (r"^std::sync::atomic::", "atomic"),
    (r"^std::sync::(Mutex|RwLock)<", "lock"),
    (r"GenericTypetagAccumulator", "typetag registry accumulator (atomic list)"),
    (r"^std::thread::LocalKey<|thread::local", "thread-local key"),
]


def _by_fields(F, ty, depth=3):
    """a struct static whose every non-Freeze field is itself of a reviewed race-free kind (lock, atomic, once cell)"""
    if depth == 0:
        return None
    name = re.sub(r"<.*", "", ty)
    cands = [a for a in F.adts.values() if a.qpath.endswith(name) or a.path == name]
    if len(cands) != 1 or cands[0].kind != "Struct" or not cands[0].fields:
        return None
    kinds = set()
    for fld in cands[0].fields:
        fty = fld["ty"]
        if fld["freeze"]:
            continue  # no interior mutability in this field's type
        r = None
        for p, why in STATIC_OK:
            if re.search(p, fty):
                r = why
                break
        if r is None:
            r = _by_fields(F, fty, depth - 1)
        if r is None:
            return None
        kinds.add(r)
    return "struct whose interior-mutable fields are all race-free (%s)" % ", ".join(sorted(kinds)) if kinds else None


def r2_statics(ctx, F):
    st = [s for s in F.statics if s["crate"] in CRATES]
    ctx.floor("C20.R2", "statics", len(st), 1400, inventory=True)
    nf = [s for s in st if not s["freeze"]]
    ctx.info["statics_total"] = len(st)
    ctx.info["statics_not_freeze"] = len(nf)
    muts = [s for s in st if s["mut"] != "Not"]
    ctx.check(not muts, "C20.R2", "no-static-mut", "no `static mut` in the three crates",
              "`static mut` items: %s" % [s["path"] for s in muts][:5])
    by = {}
    for s in nf:
        tl = "__RUST_STD_INTERNAL_VAL" in s["path"] or re.search(r"sys/thread_local", s["span"])
        if tl:
            by.setdefault("thread-local storage", []).append(s)
            continue
        # mutable state about *values of one evaluation* (cycle-guard stacks, depth counters: they hold value
        # addresses or per-evaluation counts) must be per thread: a lock makes it race-free but still shared, and frozen
        # values have the same address in every thread
        if re.search(r"layout::pointer::RawPointer|layout::identity::ValueIdentity|layout::value::Value<", s["ty"]) \
                and not re.search(r"LazyLock<\(values::layout::heap::heap_type::FrozenHeapRef", s["ty"]):
            ctx.bad("C20.R2", "static-shares-value-addresses:%s" % s["path"],
                    "static `%s: %s` keeps addresses of values in process-wide mutable state (not a thread-local): "
                    "evaluations on different threads see each other's entries - e.g. a cycle guard reports a cycle "
                    "because another thread is serialising the same frozen value" % (s["path"], s["ty"][:90]))
            continue
        reason = None
        for p, r in STATIC_OK:
            if re.search(p, s["ty"]):
                reason = r
                break
        if reason is None and re.search(r"values::types::array::ValueEmptyArray$", s["ty"]):
            reason = "the shared empty array: its cells are covered by the unsafe-Sync inventory (C04.R4 / C20.R1)"
        if reason is None:
            reason = _by_fields(F, s["ty"])
        if reason is None:
            ctx.bad("C20.R2", "static:%s" % s["path"],
                    "static `%s: %s` contains interior mutability of a kind that is not race-free and is not reviewed"
                    % (s["path"], s["ty"][:80]))
        else:
            by.setdefault(reason, []).append(s)
    for r, xs in by.items():
        ctx.ok("C20.R2", "static-class:" + r.split(":")[0].split("(")[0].strip(), "%d statics: %s" % (len(xs), r))
    ctx.info["static_classes"] = {r: len(x) for r, x in by.items()}


def r3_orderings(ctx, F):
    dr = F.one(r"<values::layout::heap::allocator::alloc::chunk::Chunk as std::ops::Drop>::drop$")
    fs = calls_by_name(dr, r"atomic::Atomic::<u32>::fetch_sub$")
    de = calls_by_name(dr, r"std::alloc::dealloc$")
    if len(fs) != 1 or not de:
        ctx.bad("C20.R3", "Chunk::drop:anchor", "anchor-missing: fetch_sub / dealloc in Chunk::drop", fn=dr)
        return
    ordt = None
    for a in F.adts.values():
        if a.qpath.endswith("sync::atomic::Ordering"):
            ordt = a
    vals = set()
    from kern import origins
    for o in origins(dr, fs[0].args[-1], pass_calls=None):
        if o[0] == "agg":
            vals.add(o[1].kind.rsplit("::", 1)[-1])
        else:
            vals.add(o[0])
    ctx.check(vals <= {"SeqCst", "AcqRel"} and bool(vals), "C20.R3", "Chunk::drop:ordering",
              "the decrement that guards deallocation is %s" % sorted(vals),
              "the reference-count decrement in Chunk::drop uses ordering %s: with Relaxed/Release alone the thread "
              "that frees the chunk does not synchronise with the other owners' last accesses" % sorted(vals), fn=dr,
              line=fs[0].line)
    # dealloc only when the previous value was 1
    eq = [s for s in dr.stmts if s.kind.startswith("binop Eq") and fs[0].dest_local in s.text() and "0x00000001" in s.text()]
    good = False
    if eq:
        from kern import bool_local_edges
        te = bool_local_edges(dr, eq[0].lhs_local, "true")
        good = bool(te) and all(d.bb not in dr.reach(0, cut_edges=te) for d in de)
    ctx.check(good, "C20.R3", "Chunk::drop:dealloc-only-last",
              "dealloc is reached only on the edge where fetch_sub returned 1 (this was the last owner)",
              "Chunk::drop can free the chunk although other owners remain (or compares the wrong value)", fn=dr)
    cl = F.one(r"<values::layout::heap::allocator::alloc::chunk::Chunk as std::clone::Clone>::clone$")
    fa = calls_by_name(cl, r"atomic::Atomic::<u32>::fetch_add$")
    ctx.check(bool(fa), "C20.R3", "Chunk::clone:increments", "Chunk::clone increments the shared count atomically",
              "Chunk::clone no longer increments the reference count atomically", fn=cl)


def r4_post_freeze_only_own_defs(ctx, F):
    """frozen data is written after the freeze only by FrozenDef::post_freeze, and only for defs of the module being
    frozen: the list the freezer keeps for it (Freezer.frozen_defs) receives only values this freezer has just
    allocated (Freezer::reserve). A def that was already frozen lives in another, shared heap; registering it makes
    Module::freeze rewrite its bytecode cell (an UnsafeCell behind `unsafe impl Sync`) while other threads run it."""
    from kern import origins
    pc = re.compile(r"(FrozenValueTyped::<'v, T>::new$|Option::<.*>::(unwrap\w*|expect)$|Try>::branch$)")
    n = 0
    for f in F.fns.values():
        if f.crate != "starlark" or not any("Freezer::frozen_defs}" in st.text() for st in f.stmts):
            continue
        from kern import forward_locals, locals_in
        recv = forward_locals(f, [st.lhs_local for st in f.stmts if "Freezer::frozen_defs}" in st.text()],
                              pass_calls=re.compile(r"(RefCell::<T>::borrow_mut|DerefMut>::deref_mut|Deref>::deref)$"))
        for c in f.calls:
            if c.bb in f.cleanup or not re.search(r"Vec::<T, A>::(push|insert|extend\w*)$", c.name) \
                    or not any(x in recv for x in locals_in(c.args[0])):
                continue
            n += 1
            os_ = origins(f, c.args[-1], pass_calls=pc)
            names = {o[1].name for o in os_ if o[0] == "call"}
            fresh = any(re.search(r"freezer::Freezer::<'fv>::reserve$", x) for x in names)
            foreign = sorted(short_fn(x) for x in names if not re.search(r"Freezer::<'fv>::reserve$", x)) + [
                "parameter " + o[1] for o in os_ if o[0] == "param"]
            ctx.check(fresh and not foreign, "C20.R4", "post-freeze-registration:" + short_fn(top_fn(F, f).qpath),
                      "only a def allocated by this freezer (Freezer::reserve) is registered for post_freeze",
                      "`%s` registers a value for FrozenDef::post_freeze that does not (only) come from this freezer's "
                      "own reservation (%s): an already frozen def of another module would have its compiled body "
                      "rewritten while that module is shared with other threads" % (short_fn(top_fn(F, f).qpath),
                                                                                   foreign or "no reservation"),
                      fn=f, line=c.line)
    ctx.floor("C20.R4", "registrations into Freezer.frozen_defs", n, 1)


def run(ctx):
    F = ctx.facts("core")
    r4_interior(ctx, F, prop_rule="C20.R1")
    r4_array(ctx, F, rule="C20.R1")
    # Send impls too: list them
    us = [i for i in F.impls if i["safety"].startswith("Unsafe") and re.search(r"marker::(Send|Sync)$", i["trait"])
          and i["crate"] in CRATES]
    ctx.floor("C20.R1", "unsafe impl Send/Sync", len(us), 30, inventory=True)
    ctx.info["unsafe_send_sync_impls"] = sorted("%s for %s" % (i["trait"].split("::")[-1], i["selfty"][:60]) for i in us)
    r2_statics(ctx, F)
    r3_orderings(ctx, F)
    r4_post_freeze_only_own_defs(ctx, F)
