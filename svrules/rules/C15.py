"""C15 - depth, tick and cancellation limits (structural clauses)."""
import re

from kern import (CallGraph, bool_call_edges, branch_edges, calls_by_name, callers, origins, outcome_edges, short_fn,
                  top_fn)

DESCRIPTION = ("C15 clauses decided: R1 every Starlark frame is counted (raw invocations only inside the closure handed "
               "to with_call_stack; push fails before writing when the stack is full); R2 every call-family handler and "
               "the loop back-edge report forward progress before transferring control, and propagate its error; "
               "R3 the periodic check consults cancellation, heap and tick limits and returns their errors.")
NOT_DECIDED = "exact boundary arithmetic (>= vs >) and tick totals: runtime values"

HANDLER_RE = (r"eval::bc::instr_impl::\w+(<.*>)? as eval::bc::instr(_impl)?::(BcInstr|InstrNoFlowImpl)>::"
              r"(run|run_with_args)$")


def r2_ticks(ctx, F):
    cg = CallGraph(F, expand={"BcFrozenCallable"})
    wcs = F.one(r"Evaluator::<'v, 'a, 'e>::with_call_stack$")
    tick = F.one(r"Evaluator::<'v, 'a, 'e>::report_forward_progress$")
    handlers = [f for f in F.fns.values() if re.search(HANDLER_RE, f.qpath)]
    ctx.floor("C15.R2", "instruction handlers", len(handlers), 50, inventory=True)
    enters = set()  # functions that can open a new frame
    rev = cg.rev()
    st = [wcs.uid]
    while st:
        n = st.pop()
        if n in enters:
            continue
        enters.add(n)
        st.extend(rev.get(n, ()))
    fam = [h for h in handlers if h.uid in enters and "InstrNoFlow<I>" not in h.qpath]
    ctx.floor("C15.R2", "call-family handlers (reach with_call_stack)", len(fam), 5)
    ctx.info["call_family"] = sorted(h.qpath for h in fam)

    from kern import must_call_summary
    tick_wrappers = must_call_summary(F, r"Evaluator::<'v, 'a, 'e>::report_forward_progress$")

    def is_tick(c):
        return (not c.indirect) and (c.callee_uid() == tick.uid or (
            c.callee_uid() in tick_wrappers and c.callee_uid() not in enters))

    visited = {}

    def walk(fn, ticked, root, chain):
        """every call in fn that can open a frame is dominated by a tick (or fn is entered ticked)"""
        key = (fn.uid, ticked)
        if key in visited:
            return
        visited[key] = True
        ticks = [c for c in fn.calls if is_tick(c) and c.bb not in fn.cleanup]
        for t in ticks:
            # the tick's error must leave the function without opening a frame
            err_e = outcome_edges(F, fn, t, "Break") | outcome_edges(F, fn, t, "Err")
            after_err = set()
            for (_, b) in err_e:
                after_err |= fn.reach([b])
            opens = [c for c in fn.calls if c.bb in after_err and not c.indirect and c.callee_uid() in enters]
            ctx.check(bool(err_e) and not opens, "C15.R2", "tick-error-propagates:" + fn.qpath,
                      "the error of report_forward_progress leaves the handler before any frame is opened",
                      "the result of report_forward_progress is ignored or a call is still made after it failed "
                      "(limits not enforced at this site)", fn=fn, line=t.line)
        for c in fn.calls:
            if c.bb in fn.cleanup or c.indirect or is_tick(c):
                continue
            u = c.callee_uid()
            if u not in enters:
                continue
            dom = ticked or any(fn.dominates(t.bb, c.bb) and t.bb != c.bb for t in ticks)
            callee = F.fns.get(u)
            local_helper = callee is not None and re.match(r"starlark::eval::bc::instr_impl::\w+$", callee.qpath)
            if local_helper:
                walk(callee, dom, root, chain + [fn.qpath])
                continue
            short = re.sub(r"<.*?>", "", c.name).split("::")[-1]
            ctx.check(dom, "C15.R2", "tick-before-transfer:%s:%s:%s" % (root, fn.name, short),
                      "report_forward_progress dominates the transfer of control `%s`" % short,
                      "the call `%s` can open a Starlark frame but is not dominated by report_forward_progress on "
                      "every path: calls through this path are not counted as ticks and are never checked against "
                      "the tick budget / cancellation" % c.name, fn=fn, line=c.line, path=chain + [fn.qpath])

    for h in fam:
        root = re.search(r"instr_impl::(\w+)", h.qpath).group(1)
        walk(h, False, root, [])

    # loop back edge
    cont = F.one(r"starlark::<eval::bc::instr_impl::InstrContinue as eval::bc::instr::BcInstr>::run$")
    ticks = [c for c in cont.calls if is_tick(c)]
    nxt = calls_by_name(cont, r"vtable::AValueDyn::<'v>::iter_next$")
    good = bool(ticks) and bool(nxt) and all(
        any(cont.dominates(t.bb, n.bb) and t.bb != n.bb for t in ticks) for n in nxt)
    ctx.check(good, "C15.R2", "tick-before-backedge:InstrContinue",
              "report_forward_progress dominates iter_next in the loop back-edge handler",
              "the loop back edge no longer reports forward progress: a long loop is never checked against "
              "the tick budget / cancellation", fn=cont)
    if ticks:
        t = ticks[0]
        err_e = outcome_edges(F, cont, t, "Err")
        errs = [st for st in cont.stmts if st.kind.endswith("InstrControl::Err")]
        good = bool(err_e) and bool(errs) and all(
            not (set(cont.returns()) & cont.reach([b], cut_blocks={st.bb for st in errs})) for (_, b) in err_e)
        ctx.check(good, "C15.R2", "tick-error-propagates:InstrContinue",
                  "the Err edge of report_forward_progress returns InstrControl::Err",
                  "the loop back edge ignores the error of report_forward_progress", fn=cont, line=t.line)


def r1_frames(ctx, F):
    cg = CallGraph(F, expand="value")
    inv = cg.trampolines.get("invoke")
    wcs = F.one(r"Evaluator::<'v, 'a, 'e>::with_call_stack$")
    # closures handed to with_call_stack
    within = set()
    for f, c in callers(F, r"Evaluator::<'v, 'a, 'e>::with_call_stack$"):
        for o in origins(f, c.args[-1]):
            if o[0] == "agg" and o[1].kind.startswith("agg closure "):
                within.add(o[1].kind.rsplit(" @", 1)[1])
    ctx.floor("C15.R1", "closures passed to with_call_stack", len(within), 3, inventory=True)
    FORWARDERS = {
        # callee-side forwarders: they run inside a frame already pushed by the caller of `invoke`
        r"<eval::compiler::def::DefGen<V> as values::traits::StarlarkValue<'v>>::invoke$":
            "StarlarkValue::invoke of a def: reached only through the invoke trampoline (frame pushed by caller)",
        r"<values::types::function::NativeFunction as values::traits::StarlarkValue<'v>>::invoke$":
            "StarlarkValue::invoke of a native function: reached through the trampoline",
        r"<eval::bc::native_function::BcNativeFunction as eval::bc::call::BcFrozenCallable>::bc_invoke":
            "forwards to a closure under with_call_stack",
    }
    raw = []
    pat = re.compile(r"(vtable::AValueDynFull::<'v>::invoke|eval::compiler::def::DefGen::<V>::invoke_impl|"
                     r"eval::compiler::def::DefGen::<V>::invoke_with_args|"
                     r"eval::bc::native_function::BcNativeFunction::invoke|"
                     r"values::types::known_methods::KnownMethod::invoke_method)$")
    for f in F.fns.values():
        for c in f.calls:
            if not c.indirect and pat.search(c.name):
                raw.append((f, c))
    ctx.floor("C15.R1", "raw invocation sites", len(raw), 6, inventory=True)
    for f, c in raw:
        # walk up closures: any enclosing closure is a `within` closure
        g = f
        under = False
        while True:
            if g.uid in within:
                under = True
                break
            if g.kind == "Closure" and g.parent in F.fns:
                g = F.fns[g.parent]
            else:
                break
        short = c.name.split("::")[-1]
        if under:
            ctx.ok("C15.R1", "raw-invoke:%s:%s" % (short_fn(top_fn(F, f).qpath), short),
                   "raw invocation inside the closure handed to with_call_stack (frame counted)")
            continue
        t = top_fn(F, f)
        fw = [r for p, r in FORWARDERS.items() if re.search(p, t.qpath)]
        # callee-side: the function is itself an impl of StarlarkValue::invoke / invoke_impl (runs under caller's frame)
        callee_side = bool(re.search(r"as values::traits::StarlarkValue<'v>>::invoke$|DefGen::<V>::invoke(_impl|_with_args)?$",
                                     t.qpath))
        ctx.check(bool(fw) or callee_side, "C15.R1", "raw-invoke:%s:%s" % (short_fn(t.qpath), short),
                  "callee-side forwarder (runs inside the frame pushed by its caller)",
                  "raw function invocation `%s` outside with_call_stack: this call path does not count a frame, so "
                  "unbounded recursion through it overflows the native stack instead of failing with a "
                  "stack-overflow error" % c.name, fn=f, line=c.line)

    # push checks the bound before writing: on the edge where count >= len holds the error is built, the frame and
    # the counter are written only on the other edge (the comparison may be written in any of its equivalent forms)
    from kern import bool_local_edges
    push = F.one(r"cheap_call_stack::CheapCallStack::<'v>::push$")
    writes = [st for st in push.stmts if "{eval::runtime::cheap_call_stack::CheapCallStack::count}" in st.lhs
              and st.bb not in push.cleanup]
    errs = [st for st in push.stmts if "StackOverflow" in st.kind]
    good = False
    for st in push.stmts:
        m = re.match(r"binop (Ge|Le|Lt|Gt)", st.kind)
        if not m or st.bb in push.cleanup:
            continue
        ops = st.ops[0].split(" , ")
        if len(ops) != 2:
            continue

        def what(op):
            os_ = origins(push, op, pass_calls=None)
            txt = " ".join(push_src(push, type("S", (), {"text": lambda s_, o=op: o})()) for _ in [0]) + " " + op
            if any(o[0] == "call" and re.search(r"::len$", o[1].name) for o in os_):
                return "len"
            if "CheapCallStack::count}" in txt or any(
                    "CheapCallStack::count}" in d.text() for l in re.findall(r"_\d+", op) for d in push.stmts if d.lhs == l):
                return "count"
            return "?"
        a, b = what(ops[0]), what(ops[1])
        kind = m.group(1)
        over_on = None  # truth value of the comparison on which count >= len holds
        if (a, b) == ("count", "len"):
            over_on = {"Ge": "true", "Lt": "false"}.get(kind)
        elif (a, b) == ("len", "count"):
            over_on = {"Le": "true", "Gt": "false"}.get(kind)
        if over_on is None:
            continue
        oe = bool_local_edges(push, st.lhs_local, over_on)
        ne = bool_local_edges(push, st.lhs_local, "false" if over_on == "true" else "true")
        if oe and ne and errs and writes and all(e.bb not in push.reach(0, cut_edges=oe) for e in errs) and all(
                w.bb not in push.reach(0, cut_edges=ne) for w in writes):
            good = True
    ctx.check(good, "C15.R1", "push:bound-checked-before-write",
              "CheapCallStack::push returns StackOverflow on the edge where count >= len and writes only on the other",
              "CheapCallStack::push no longer tests `count >= stack.len()` (in any equivalent form) before writing the "
              "frame", fn=push)


def push_src(fn, st):
    """text of the defining statements of the operands of st (one level)"""
    out = []
    for l in re.findall(r"_\d+", st.text()):
        for d in fn.stmts:
            if d.lhs == l:
                out.append(d.text())
    return " ".join(out)


def r3_limits(ctx, F):
    rfp = F.one(r"Evaluator::<'v, 'a, 'e>::report_forward_progress$")
    ric = F.one(r"Evaluator::<'v, 'a, 'e>::run_infrequent_instr_checks$")
    cs = [c for c in rfp.calls if not c.indirect and c.callee_uid() == ric.uid]
    incr = [st for st in rfp.stmts if st.kind.startswith("binop Add") and st.bb not in rfp.cleanup]
    ctx.check(bool(cs) and bool(incr), "C15.R3", "report_forward_progress:periodic-check",
              "report_forward_progress increments the counter and calls run_infrequent_instr_checks",
              "report_forward_progress no longer reaches run_infrequent_instr_checks", fn=rfp)
    if cs:
        err_e = outcome_edges(F, rfp, cs[0], "Break")
        ctx.check(bool(err_e), "C15.R3", "report_forward_progress:error-propagates",
                  "the error of run_infrequent_instr_checks is propagated with `?`",
                  "report_forward_progress drops the error of run_infrequent_instr_checks", fn=rfp)
        # the comparison that gates the check is `counter >= PERIOD`
        # the gate must be a threshold (monotone) comparison: the counter is not reset when a check fails, so an
        # equality test would never fire again on a reused evaluator
        mono = [st for st in rfp.stmts if re.match(r"binop (Ge|Gt|Le|Lt)\b", st.kind)]
        ctx.check(bool(mono), "C15.R3", "report_forward_progress:period-comparison",
                  "the periodic check is gated by a threshold comparison (>=) on the counter",
                  "the periodic check is no longer gated by a threshold comparison on the counter (an equality test "
                  "stops firing once the counter has passed the period, e.g. after a failed check on a reused "
                  "evaluator)", fn=rfp)
    need = {
        "cancellation": lambda c: c.indirect or re.search(r"as std::ops::Fn<Args>>::call$", c.name) and "-> bool" in c.full,
        "heap limit": lambda c: re.search(r"Evaluator::<'v, 'a, 'e>::check_heap_size_limit$", c.name),
        "tick limit": lambda c: re.search(r"Evaluator::<'v, 'a, 'e>::check_tick_count_limit$", c.name),
    }
    errs = [st for st in ric.stmts if st.kind == "agg adt std::result::Result::Err" and st.bb not in ric.cleanup]
    for what, pred in need.items():
        cs = [c for c in ric.calls if c.bb not in ric.cleanup and pred(c)]
        good = bool(cs) and any(any(st.bb in ric.after(c.bb) for st in errs) for c in cs)
        # must be consulted on every path that returns Ok: Ok constructions are dominated by the call
        oks = [st for st in ric.stmts if st.kind == "agg adt std::result::Result::Ok" and st.bb not in ric.cleanup]
        good = good and bool(oks) and all(any(ric.dominates(c.bb, st.bb) for c in cs) for st in oks)
        ctx.check(good, "C15.R3", "run_infrequent_instr_checks:" + what,
                  "%s is consulted on every path that returns Ok and can produce an error" % what,
                  "run_infrequent_instr_checks no longer consults the %s on every successful path" % what, fn=ric)
    # eval_module / eval_function run the check at the end
    for pat in (r"starlark::eval::<impl eval::runtime::evaluator::Evaluator<'v, 'a, 'e>>::eval_module$",
                r"starlark::eval::<impl eval::runtime::evaluator::Evaluator<'v, 'a, 'e>>::eval_function$"):
        f = F.one(pat)
        cs = [c for c in f.calls if not c.indirect and c.callee_uid() == ric.uid]
        ctx.check(bool(cs), "C15.R3", f.name + ":final-check",
                  "%s runs the infrequent checks before returning" % f.name,
                  "%s no longer runs the final limit check (a short evaluation can exceed the budget unnoticed)"
                  % f.name, fn=f)


def run(ctx):
    F = ctx.facts("core")
    # "after any of these errors the evaluator is reusable": the thread-local depth counter is given back on the error
    # path too (shared with C07.R2 guard balance)
    from rules.C07 import r2b_guard_balance
    r2b_guard_balance(ctx, F, rule="C15.R4")
    r1_frames(ctx, F)
    # a leaked or double-popped frame corrupts the depth accounting: the pairing clauses of C07.R1 are part of
    # "every frame is counted"
    from rules.C07 import r1_pairing
    r1_pairing(ctx, F, rule="C15.R1")
    r2_ticks(ctx, F)
    r3_limits(ctx, F)
