"""C08 - arguments bind to parameters as the call rules say (structural clauses of the binder)."""
import re

from kern import bool_call_edges, bool_local_edges, callers, origins, short_fn, top_fn

DESCRIPTION = ("C08 clauses decided: R1 the binder's all-positional fast path (ParametersSpec::collect_inline_impl) is "
               "entered only under the conjunction of its five conditions - as many positional arguments as positional "
               "parameters, as many as parameters in all, no named arguments, no *args, no **kwargs; R2 every class of "
               "ill-formed call has a failure exit in the slow path (repeated argument by position/name and through "
               "**kwargs, extra positional, extra named, non-string **kwargs key, non-iterable *args, non-dict **kwargs, "
               "the three missing-parameter messages), and defaults are filled in; R3 one binder: collect_slow is reached "
               "only through collect_inline, and every way a def, a native function or a record type receives arguments "
               "goes through collect_inline.")
NOT_DECIDED = ("that the slot each argument lands in is the right one for every signature x call shape (index arithmetic "
               "of one loop nest): needs enumeration")

SPEC = r"eval::runtime::params::spec::ParametersSpec::<values::layout::value::Value<'v>>::%s$"


def r1_fast_path_guard(ctx, F):
    f = F.one(SPEC % "collect_inline_impl")
    slow = [c for c in f.calls if c.bb not in f.cleanup and re.search(r"::collect_slow$", c.name)]
    if len(slow) != 1:
        ctx.bad("C08.R1", "fast-path:anchor", "anchor-missing: the call of collect_slow in collect_inline_impl", fn=f)
        return
    rets = set(f.returns())

    def required(name, edges_and_locals):
        """every return reached without collect_slow is reached through an edge that can only be taken when the test
        held (the test's own true-edges, or those of a boolean local built as a conjunction containing it)"""
        from kern import conjunction_edges
        edges, locs = edges_and_locals
        edges = conjunction_edges(f, locs, edges) if (edges or locs) else set()
        ok = bool(edges) and not (rets & f.reach(0, cut_blocks={slow[0].bb}, cut_edges=set(edges)))
        ctx.check(ok, "C08.R1", "fast-path-requires:" + name,
                  "the fast path is entered only when " + name,
                  "collect_inline_impl can bind arguments on its all-positional fast path without having established "
                  "that %s: the call then skips defaults, *args/**kwargs collection and the arity/duplicate checks of "
                  "the slow path" % name, fn=f)

    def test_edges(callee_re, src_re, want="true"):
        out, locs = set(), set()
        for c in f.calls:
            if c.bb in f.cleanup or not re.search(callee_re, c.name) or not c.args:
                continue
            if any(o[0] == "call" and re.search(src_re, o[1].name) for o in origins(f, c.args[0])):
                out |= set(bool_call_edges(F, f, c, want))
                locs.add(c.dest_local)
        return out, locs

    required("there are no named arguments", test_edges(r"::is_empty$", r"ArgumentsImpl::named$"))
    required("there is no *args argument", test_edges(r"Option::<T>::is_none$", r"ArgumentsImpl::args$"))
    required("there is no **kwargs argument", test_edges(r"Option::<T>::is_none$", r"ArgumentsImpl::kwargs$"))
    # the two length equalities
    eq = {"num_positional": set(), "param_kinds": set()}
    eql = {"num_positional": set(), "param_kinds": set()}
    for st in f.stmts:
        if st.kind != "binop Eq" or st.bb in f.cleanup:
            continue
        ops = st.ops[0].split(" , ")
        srcs = ""
        has_pos = False
        for op in ops:
            for o in origins(f, op, pass_calls=re.compile(r"(::len$|Deref>::deref$)")):
                if o[0] == "call" and re.search(r"ArgumentsImpl::pos$", o[1].name):
                    has_pos = True
            # field reads reach the operand through plain statements
            seen, work = set(), re.findall(r"_\d+", op)
            while work:
                l = work.pop()
                if l in seen:
                    continue
                seen.add(l)
                for s2 in f.stmts:
                    if s2.lhs_local == l:
                        srcs += " " + s2.text()
                        work += re.findall(r"_\d+", s2.text())
                for c2 in f.calls:
                    if c2.dest_local == l:
                        work += [x for a in c2.args for x in re.findall(r"_\d+", a)]
        if not has_pos:
            continue
        for k in eq:
            if k in srcs:
                eq[k] |= set(bool_local_edges(f, st.lhs, "true"))
                eql[k].add(st.lhs)
    required("the number of positional arguments equals the number of positional parameters",
             (eq["num_positional"], eql["num_positional"]))
    required("the number of positional arguments equals the number of parameters", (eq["param_kinds"], eql["param_kinds"]))


MISSING = ["Missing positional-only parameter", "Missing named-only parameter", "Missing parameter"]
SLOW_ERRORS = ["RepeatedArg", "ExtraPositionalArg", "ExtraNamedArg", "ArgsValueIsNotString", "ArgsArrayIsNotIterable",
               "KwArgsIsNotDict"]


def r2_failure_exits(ctx, F):
    f = F.one(SPEC % "collect_slow")
    bodies = [f] + list(F.closures_of(f))
    built = {}
    per_body = {}
    for g in bodies:
        for st in g.stmts:
            m = re.match(r"agg adt eval::runtime::arguments::FunctionError::(\w+)$", st.kind)
            if m and st.bb not in g.cleanup:
                per_body.setdefault(g.uid, set()).add(m.group(1))
                if g is f:
                    built[m.group(1)] = built.get(m.group(1), 0) + 1
    # an error built by a local closure/helper counts once per place the helper is called
    for g in bodies[1:]:
        cl_locals = {st.lhs for st in f.stmts if st.kind.startswith("agg closure ") and st.kind.endswith("@" + g.uid)}
        n_calls = sum(1 for c in f.calls if c.bb not in f.cleanup and not c.indirect and c.callee_uid() == g.uid)
        for c in f.calls:
            if c.bb in f.cleanup or not re.search(r"ops::Fn(Mut|Once)?::call(_mut|_once)?$", c.name) or not c.args:
                continue
            seen, work = set(), re.findall(r"_\d+", c.args[0])
            while work:
                l = work.pop()
                if l in seen:
                    continue
                seen.add(l)
                if l in cl_locals:
                    n_calls += 1
                    break
                for st in f.stmts:
                    if st.lhs_local == l:
                        work += re.findall(r"_\d+", st.text())
        # ... or handed to a combinator (`map_err(|_| FunctionError::X)`)
        for c in f.calls:
            if c.bb in f.cleanup or re.search(r"ops::Fn(Mut|Once)?::call(_mut|_once)?$", c.name):
                continue
            if any(a.split()[-1] in cl_locals for a in c.args if a.startswith(("move ", "copy "))):
                n_calls += 1
        for v in per_body.get(g.uid, ()):
            built[v] = built.get(v, 0) + n_calls
    for v in SLOW_ERRORS:
        need = 2 if v == "RepeatedArg" else 1  # repeated by position/name, and repeated through **kwargs
        ctx.check(built.get(v, 0) >= need, "C08.R2", "failure-exit:" + v,
                  "collect_slow builds FunctionError::%s (%d site(s))" % (v, built.get(v, 0)),
                  "collect_slow has %d construction(s) of FunctionError::%s (needs %d): that class of ill-formed call is "
                  "no longer rejected" % (built.get(v, 0), v, need), fn=f)
    from kern import match_arms, all_paths_pass
    m = match_arms(F, f, r"params::spec::ParameterKind<")
    errs = [st.bb for st in f.stmts if st.kind == "agg adt std::result::Result::Err" and st.bb not in f.cleanup]
    fmts = [c for c in f.calls if c.bb not in f.cleanup and re.search(r"fmt::Arguments::<'a>::new(_v1|_const)?$", c.name)]
    if not m or "Required" not in m[1]:
        ctx.bad("C08.R2", "failure-exit:missing-parameter:anchor", "anchor-missing: match on ParameterKind in collect_slow", fn=f)
    else:
        arm = m[1]["Required"]
        ctx.check(bool(errs) and all_paths_pass(f, [arm], errs), "C08.R2", "failure-exit:missing-required-parameter",
                  "an unfilled required parameter always ends the call with an error",
                  "collect_slow: the arm for an unfilled ParameterKind::Required can continue without returning an error "
                  "(the parameter stays unassigned)", fn=f)
        in_arm = f.reach([arm])
        ctx.check(sum(1 for c in fmts if c.bb in in_arm) >= 3, "C08.R2", "failure-exit:three-missing-messages",
                  "positional-only / named-only / ordinary missing parameters have their own message",
                  "collect_slow formats fewer than three missing-parameter messages", fn=f)
    # defaults: a Defaulted parameter kind is matched and its value stored
    dflt = any("ParameterKind::Defaulted" in st.text() or "as<Defaulted>" in st.text() for st in f.stmts)
    ctx.check(dflt, "C08.R2", "defaults-filled", "unfilled defaulted parameters receive their default",
              "collect_slow no longer reads ParameterKind::Defaulted: defaults are not filled in", fn=f)


BINDER_CLIENTS = {
    r"ParametersSpec::<.*>::collect_slow$": {"ParametersSpec::collect_inline_impl"},
    r"ParametersSpec::<.*>::collect_inline_impl$": {"ParametersSpec::collect_inline"},
}
ENTRY_POINTS = {
    "DefGen::invoke_impl": r"ParametersSpec::<V>::collect_inline$",
    "ParametersSpec::parser_impl": r"ParametersSpec::<V>::collect_inline$",
    "ParametersSpec::collect_impl": r"ParametersSpec::<V>::collect_inline$",
}


def r3_one_binder(ctx, F):
    for pat, allowed in BINDER_CLIENTS.items():
        got = {short_fn(top_fn(F, f).qpath) for f, c in callers(F, pat)}
        ctx.check(bool(got) and got <= allowed, "C08.R3", "binder-clients:" + pat.split("::")[-1].rstrip("$"),
                  "called only by %s" % sorted(allowed),
                  "%s is also called by %s: arguments are bound on a path that skips the fast-path test / the single "
                  "entry point" % (pat.split("::")[-1].rstrip("$"), sorted(got - allowed)))
    for who, pat in ENTRY_POINTS.items():
        fs = [f for f in F.fns.values() if f.crate == "starlark" and short_fn(f.qpath) == who]
        hit = any(re.search(pat, c.name) for f in fs for g in [f] + list(F.closures_of(f)) for c in g.calls
                  if c.bb not in g.cleanup)
        ctx.check(bool(fs) and hit, "C08.R3", "entry:" + who, "binds its arguments with collect_inline",
                  "`%s` no longer binds its arguments through ParametersSpec::collect_inline" % who,
                  fn=fs[0] if fs else None)
    # nobody else writes parameter slots from an Arguments value: the only readers of ArgumentsImpl::named/args/kwargs
    # outside the binder are the reviewed argument helpers
    n = 0
    for f in F.fns.values():
        if f.crate != "starlark":
            continue
        for c in f.calls:
            if c.bb in f.cleanup or not re.search(r"arguments::ArgumentsImpl::(named|kwargs|args)$", c.name):
                continue
            n += 1
    ctx.floor("C08.R3", "reads of named/*args/**kwargs of a call", n, 6, inventory=True)


def r4_phase_order(ctx, F):
    """duplicate detection in collect_slow relies on the order of its phases: a `**mapping` key that names a parameter is
    a repeat exactly when the slot is already filled, so every positional source (explicit positionals, then `*sequence`)
    and the explicit names must have been bound before the mapping is looked at; and the position/name clash test
    must come after the `*sequence` has been spread"""
    f = F.one(SPEC % "collect_slow")

    def first(pat):
        cs = [c for c in f.calls if c.bb not in f.cleanup and re.search(pat, c.name)]
        return cs[0] if cs else None
    pos, names, star, kw = (first(r"ArgumentsImpl::pos$"), first(r"ArgumentsImpl::names$"),
                            first(r"ArgumentsImpl::args$"), first(r"ArgumentsImpl::kwargs$"))
    if not all((pos, names, star, kw)):
        ctx.bad("C08.R4", "phase-order:anchor", "anchor-missing: pos/names/args/kwargs accessors in collect_slow", fn=f)
        return
    order = [("positional arguments", pos), ("named arguments", names), ("*sequence", star), ("**mapping", kw)]
    for (an, a), (bn, b) in zip(order, order[1:]):
        ok = b.bb in f.after(a.bb) and a.bb not in f.after(b.bb)
        ctx.check(ok, "C08.R4", "phase-order:%s<%s" % (an, bn), "%s are bound before %s" % (an, bn),
                  "collect_slow looks at the %s before the %s are bound: a parameter filled from both is no longer "
                  "reported as repeated (the later one silently wins)" % (bn, an), fn=f, line=b.line)


def r5_call_site_layout(ctx, F):
    """a compiled call keeps its positional arguments and the values of its named arguments in ONE vector (pos_named),
    positional first; the split is `len - names.len()`. Appending a positional after a name has been recorded shifts
    the split (named values are consumed as positionals). So: only the reviewed builders push onto pos_named, and
    push_pos is applied only to a value built with Default::default() in the same function (no names yet)."""
    from kern import forward_locals, locals_in
    writers = set()
    for f in F.fns.values():
        if f.crate != "starlark":
            continue
        refs = [st.lhs_local for st in f.stmts if "ArgsCompiledValue::pos_named}" in st.text() and st.kind == "refmut"]
        if not refs:
            continue
        t = forward_locals(f, refs, pass_calls=re.compile(r"DerefMut>::deref_mut$"))
        if any(re.search(r"Vec::<T, A>::(push|insert|extend\w*|append)$", c.name) and
               any(x in t for x in locals_in(c.args[0])) for c in f.calls if c.bb not in f.cleanup):
            writers.add(short_fn(top_fn(F, f).qpath))
    allowed = {"ArgsCompiledValue::push_pos", "Compiler::args"}
    ctx.check(bool(writers) and writers <= allowed, "C08.R5", "pos_named-writers",
              "pos_named grows only in %s" % sorted(allowed),
              "%s append(s) to ArgsCompiledValue.pos_named: the positional/named split of a compiled call is `len - "
              "names.len()`, an append after names were recorded turns named values into positionals"
              % sorted(writers - allowed))
    n = 0
    for f, c in callers(F, r"eval::compiler::args::ArgsCompiledValue::push_pos$"):
        n += 1
        os_ = origins(f, c.args[0], pass_calls=None)
        fresh = any(o[0] == "call" and re.search(r"ArgsCompiledValue as std::default::Default>::default$|"
                                                 r"Default>::default$", o[1].name) for o in os_)
        foreign = any(o[0] == "param" for o in os_)
        ctx.check(fresh and not foreign, "C08.R5", "push_pos-on-fresh-args:" + short_fn(top_fn(F, f).qpath),
                  "push_pos is applied to a freshly defaulted ArgsCompiledValue (no named arguments yet)",
                  "`%s` calls push_pos on an ArgsCompiledValue it did not create empty: if the call has named arguments "
                  "the new positional lands behind their values and the arguments are bound to the wrong parameters"
                  % short_fn(top_fn(F, f).qpath), fn=f, line=c.line)
    ctx.floor("C08.R5", "push_pos call sites", n, 1)


def r6_builder_counts_in_add(ctx, F):
    """a def's signature is handed to ParametersSpecBuilder one parameter at a time; the section-closing calls
    (no_more_positional_only_args / no_more_positional_args) are only made when another ordinary parameter follows, so
    `def f(a, /)` and `def f(a, /, **kw)` never make the first one. The counts of positional-only and positional
    parameters and the by-name index are therefore maintained by `add` itself, under the current style - not by the
    closing calls."""
    add = F.one(r"eval::runtime::params::spec::ParametersSpecBuilder::<V>::add$")
    wrote = {m for st in add.stmts if st.bb not in add.cleanup
             for m in re.findall(r"ParametersSpecBuilder::(positional_only|positional)\}", st.lhs)}
    ins = [c for c in add.calls if c.bb not in add.cleanup and re.search(r"symbol::map::SymbolMap::<T>::insert$", c.name)]
    for fld in ("positional_only", "positional"):
        ctx.check(fld in wrote, "C08.R6", "builder-add-maintains:" + fld,
                  "`add` updates the %s count as parameters arrive" % fld,
                  "ParametersSpecBuilder::add no longer maintains `%s`: it is only set by a section-closing call that "
                  "InstrDef does not make when `/` (or the last positional) is the last ordinary parameter - e.g. "
                  "`def f(a, /)` then accepts `f(a=1)`" % fld, fn=add)
    ctx.check(bool(ins), "C08.R6", "builder-add-maintains:names", "`add` records the names that can be passed by keyword",
              "ParametersSpecBuilder::add no longer fills the by-name index as parameters arrive", fn=add)
    closers = {short_fn(top_fn(F, f).qpath) for f, c in callers(
        F, r"ParametersSpecBuilder::<V>::no_more_positional_only_args$")}
    ctx.note("C08.R6: no_more_positional_only_args is called by %s" % sorted(closers))


# who may look at the raw `**mapping` of a call, and why that is fine
RAW_KWARGS_OK = {
    "Arguments::names_map": "validates every key (downcast_ref_key_string / unpack_kwargs_key_as_value) before it returns "
                            "the map",
    "Arguments::len": "only counts the entries",
    "no_named_args::bad": "only builds the error for a call that must not have named arguments",
}


def r7_mapping_keys_validated(ctx, F):
    """the keys of a call's `**mapping` must be strings: every path that turns it into parameter bindings or into a
    `**kwargs` dict checks that. The raw mapping is read only by the binder (collect_slow, which reports
    ArgsValueIsNotString - R2) and by the reviewed helpers of Arguments; names_map itself keeps both of its validators."""
    from kern import reviewed
    n = 0
    for f, c in callers(F, r"eval::runtime::arguments::Arguments::<'v, 'a>::unpack_kwargs$"):
        n += 1
        who = short_fn(top_fn(F, f).qpath)
        why = reviewed(F, RAW_KWARGS_OK, who)
        ctx.check(why is not None, "C08.R7", "raw-mapping-reader:" + who, "reviewed: " + (why or ""),
                  "`%s` reads the raw `**mapping` of a call (Arguments::unpack_kwargs) and is not a reviewed reader: "
                  "unless it checks that every key is a string, a call like `f(**{7: 2})` binds instead of failing"
                  % who, fn=f, line=c.line)
    ctx.floor("C08.R7", "readers of the raw **mapping", n, 3)
    nm = F.one(r"eval::runtime::arguments::Arguments::<'v, 'a>::names_map$")
    v1 = any(re.search(r"downcast_ref_key_string$", c.name) for c in nm.calls if c.bb not in nm.cleanup)
    v2 = any(re.search(r"unpack_kwargs_key_as_value$", c.name) for c in nm.calls if c.bb not in nm.cleanup)
    ctx.check(v1 and v2, "C08.R7", "names_map-validates-keys",
              "names_map validates the keys on both of its paths (only **mapping / names and **mapping)",
              "Arguments::names_map lost a key validation (%s)" % ("copy path" if not v1 else "merge path"), fn=nm)


def run(ctx):
    F = ctx.facts("core")
    r4_phase_order(ctx, F)
    r7_mapping_keys_validated(ctx, F)
    r6_builder_counts_in_add(ctx, F)
    r5_call_site_layout(ctx, F)
    r1_fast_path_guard(ctx, F)
    r2_failure_exits(ctx, F)
    r3_one_binder(ctx, F)
