"""C04 - freezing preserves every value and makes it immutable (structural clauses)."""
import re

from kern import (ValueBearing, branch_edges, calls_by_name, callers, field_reads_of, field_uses_of, locals_in, origins,
                  outcome_edges, short_fn, top_fn)

DESCRIPTION = ("C04 clauses decided: R1 every FreezeBranded::freeze body consumes every value-bearing field (K3), the "
               "heap_freeze protocol forwards before freezing children and fills after reserve, Module::freeze_impl "
               "freezes slots and extra_value and runs post_freeze for every frozen def against the def's own module; "
               "R2 list/array mutators are reached only through the checked downcast (receiver provenance); R3 the "
               "unchecked dict/set accessors have one caller each; R4 interior-mutability inventory of the types made "
               "Sync by `unsafe impl` (complete writer sets of their UnsafeCell fields).")
NOT_DECIDED = ("element-wise equality before/after freeze, hash stability, that each failed mutation leaves the value "
               "unchanged: value-level")

FREEZE_TRAIT = r"values::freeze_branded::FreezeBranded$"

LIST_MUT = (r"starlark::values::types::list::value::ListData::<'v>::"
            r"(reserve_additional_slow|reserve_additional|double|extend|try_extend|push|clear|insert|remove)$")
ARRAY_MUT = (r"starlark::values::types::array::Array::<'v>::"
             r"(set_at|insert|push|double|extend_from_slice|clear|remove|try_extend)$")


def post_freeze_declaring_module(ctx, F, rule="C04.R1"):
    """FrozenDef::post_freeze optimises the body against the def's own module"""
    # post_freeze optimises against the def's own module
    po = F.one(r"eval::compiler::def::DefGen::<values::layout::value::FrozenValue>::post_freeze$")
    agg = [st for st in po.stmts if st.kind.endswith("OptimizeOnFreezeContext::OptimizeOnFreezeContext")]
    load = [c for c in po.calls if re.search(r"AtomicFrozenRefOption::<T>::load_relaxed$|load_relaxed$", c.name)]
    good = False
    if agg and load:
        first = agg[0].ops[0].split(" | ")[0]
        os_ = origins(po, first, through_all_args=False)
        # the module operand must depend on the recorded module (Some arm of load_relaxed), not only on the parameter
        seen = set()
        work = locals_in(first)
        while work:
            l = work.pop()
            if l in seen:
                continue
            seen.add(l)
            for st in po.stmts:
                if st.lhs_local == l:
                    work += locals_in(st.text())
            for c in po.calls:
                if c.dest_local == l:
                    if c in load:
                        good = True
                    for a in c.args:
                        work += locals_in(a)
    ctx.check(good, rule, "post_freeze:optimises-against-declaring-module",
              "the module handed to the on-freeze optimiser depends on the def's recorded module (self.module)",
              "FrozenDef::post_freeze optimises the body against the module being frozen instead of the module the def "
              "was declared in: a closure exported by another module gets that module's slot contents inlined",
              fn=po)


def r1_freeze(ctx, F, vb):
    impls = [i for i in F.impls if re.search(FREEZE_TRAIT, i["trait"]) and i["crate"] == "starlark"]
    ctx.floor("C04.R1", "FreezeBranded impls", len(impls), 51, inventory=True)
    n = 0
    for i in impls:
        if i["selfadt"] == "-":
            continue
        adt = vb.adt_for(i["crate"], i["selfadt"])
        if adt is None:
            continue
        c = [f for f in F.fns.values() if f.crate == i["crate"] and f.trait == i["trait"] and f.selfty == i["selfty"]
             and f.name == "freeze" and f.kind != "Closure"]
        if len(c) != 1:
            ctx.bad("C04.R1", "body:" + i["selfty"], "anchor-missing: no unique freeze body for " + i["path"])
            continue
        f = c[0]
        n += 1
        traced = [p.split(":")[0].strip() for p in i["preds"]
                  if re.search(r":\s*(starlark::)?values::freeze_branded::FreezeBranded", p)]
        reads = field_uses_of(F, f, adt.path, "_1", depth=3)
        from kern import substitute_generics
        req = [fd for fd in adt.fields if vb.ty(substitute_generics(adt, i["selfty"], fd["ty"]), adt.crate, traced)]
        for fd in req:
            k = (fd["variant"] + "." + fd["name"]) if adt.kind == "Enum" else fd["name"]
            ctx.check(k in reads, "C04.R1", "freeze-covers:%s:%s" % (adt.path, k),
                      "value-bearing field is consumed by freeze",
                      "FreezeBranded::freeze of %s never reads field `%s` (%s): its content is dropped or replaced "
                      "when the value is frozen" % (adt.path, k, fd["ty"][:70]), fn=f)
        if req:
            bodies = [f] + F.closures_of(f)
            fr = [c_ for g in bodies for c_ in g.calls if re.search(r"::freeze(_branded)?$|try_map$|into_try_map$", c_.name)]
            ctx.check(bool(fr), "C04.R1", "freeze-recurses:" + adt.path,
                      "the body freezes its children (calls a freeze function)",
                      "FreezeBranded::freeze of %s reads its fields but never calls a freeze function on them"
                      % adt.path, fn=f)
    ctx.floor("C04.R1", "local ADTs with a FreezeBranded impl", n, 29, inventory=True)

    # heap_freeze protocol
    hfs = [g for g in F.fns.values() if re.search(r"AValue<'v>>::heap_freeze$", g.qpath)]
    ctx.floor("C04.R1", "heap_freeze bodies", len(hfs), 11)
    for g in hfs:
        short = short_fn(g.qpath)
        calls = [c for c in g.calls if c.bb not in g.cleanup]
        fwd = [c for c in calls if re.search(r"overwrite_with_forward$", c.name)]
        frz = [c for c in calls if re.search(r"Freezer::<'fv>::freeze$|FreezeBranded::freeze$|freeze_branded::FreezeBranded>::freeze$",
                                             c.name)]
        rsv = [c for c in calls if re.search(r"Freezer::<'fv>::reserve(_with_extra)?$", c.name)]
        fill = [c for c in calls if re.search(r"Reservation::<.*>::fill$", c.name)]
        if not fwd:
            deleg = [c for c in calls if re.search(r"heap_freeze_simple_impl$", c.name)]
            pan = [c for c in calls if re.search(r"panic", c.name)]
            errc = [st for st in g.stmts if st.kind == "agg adt std::result::Result::Err"]
            ctx.check(bool(deleg) or bool(pan) or bool(errc), "C04.R1", short + ":no-forward",
                      "delegates to heap_freeze_simple_impl, panics (frozen/static sibling) or refuses to freeze",
                      "heap_freeze of `%s` neither forwards nor delegates/panics/fails" % g.qpath, fn=g)
            continue
        for t in frz:
            ctx.check(any(g.dominates(w.bb, t.bb) and w.bb != t.bb for w in fwd), "C04.R1",
                      short + ":forward-before-freeze",
                      "overwrite_with_forward dominates the freezing of the children (cycles terminate, sharing kept)",
                      "children of `%s` are frozen before the object is overwritten with its forward pointer: a cyclic "
                      "or shared structure is frozen twice / recurses forever" % short, fn=g, line=t.line)
        if rsv:
            # on every path that returns Ok (the Continue edges of `?`), fill is reached
            oks = [st for st in g.stmts if st.kind == "agg adt std::result::Result::Ok" and st.bb not in g.cleanup]
            good = bool(fill) and bool(oks) and all(
                any(g.dominates(x.bb, st.bb) for x in fill) for st in oks
                if any(st.bb in g.after(r.bb) for r in rsv))
            ctx.check(good, "C04.R1", short + ":fill-before-ok",
                      "Reservation::fill dominates every Ok return reachable after reserve",
                      "a path reserves frozen space and returns Ok without filling it", fn=g)

    # Module::freeze_impl
    fi = F.one(r"environment::modules::Module::<'v>::freeze_impl$")
    madt = F.adt(r"^starlark::environment::modules::Module$")
    reads = field_reads_of(F, fi, madt.path, "_1", depth=1)
    for fd in madt.fields:
        ctx.check(fd["name"] in reads, "C04.R1", "freeze_impl:consumes:" + fd["name"],
                  "Module field is taken by freeze_impl",
                  "Module::freeze_impl never reads field `%s`" % fd["name"], fn=fi)
    sl = calls_by_name(fi, r"slots::MutableSlots::<'v>::freeze$")
    ev = [c for c in fi.calls if re.search(r"Freezer::<'fv>::freeze$", c.name)] + [
        c for g in F.closures_of(fi) for c in g.calls if re.search(r"Freezer::<'fv>::freeze$", c.name)]
    oks = [st for st in fi.stmts if st.kind == "agg adt std::result::Result::Ok" and st.bb not in fi.cleanup]
    ctx.check(bool(sl) and bool(oks) and all(fi.dominates(sl[0].bb, st.bb) for st in oks), "C04.R1",
              "freeze_impl:slots-frozen", "MutableSlots::freeze dominates the Ok return",
              "freeze_impl can return a frozen module without freezing the slots", fn=fi)
    ctx.check(bool(ev), "C04.R1", "freeze_impl:extra_value-frozen", "extra_value is frozen with the same Freezer",
              "freeze_impl no longer freezes extra_value", fn=fi)
    pf = calls_by_name(fi, r"eval::compiler::def::DefGen::<values::layout::value::FrozenValue>::post_freeze$")
    nxt = [c for c in fi.calls if re.search(r"Iterator>::next$", c.name) and c.bb not in fi.cleanup]
    alloc = calls_by_name(fi, r"FrozenHeap>::alloc_any_value$|alloc_any_value$")
    good = bool(pf) and bool(alloc) and all(any(fi.dominates(a.bb, p.bb) for a in alloc) for p in pf) and \
        bool(oks) and all(any(fi.dominates(n_.bb, st.bb) for n_ in nxt) for st in oks)
    ctx.check(good, "C04.R1", "freeze_impl:post_freeze-loop",
              "post_freeze runs in a loop over frozen_defs after the frozen module data is allocated and before Ok",
              "freeze_impl no longer runs post_freeze for the frozen defs before returning", fn=fi)
    # everything that can freeze a def runs before the post_freeze loop (a def first reached later is registered in
    # frozen_defs after the loop has consumed the list: it keeps its placeholder body)
    clos = {st.lhs: F.fns.get(st.kind.rsplit(" @", 1)[1]) for st in fi.stmts
            if st.kind.startswith("agg closure ") and " @" in st.kind}
    freezing = list(sl)
    for c in fi.calls:
        if c.bb in fi.cleanup:
            continue
        for a in c.args:
            for l in re.findall(r"_\d+", a):
                g = clos.get(l)
                if g is not None and any(re.search(r"Freezer::<'fv>::freeze$", d.name) for d in g.calls):
                    freezing.append(c)
    freezing += [c for c in fi.calls if c.bb not in fi.cleanup and re.search(r"Freezer::<'fv>::freeze$", c.name)]
    loop_heads = [n_ for n_ in nxt if pf and any(p.bb in fi.after(n_.bb) for p in pf) and "FrozenDef" in n_.full + "".join(
        fi.locals.get(l, "") for a in n_.args for l in re.findall(r"_\d+", a)) or (pf and any(
            p.bb in fi.after(n_.bb) and n_.bb in fi.after(p.bb) for p in pf))]
    ok = bool(loop_heads) and len(freezing) >= 2 and all(
        h.bb in fi.after(x.bb) and x.bb not in fi.after(h.bb) for x in freezing for h in loop_heads)
    ctx.check(ok, "C04.R1", "freeze_impl:all-freezing-before-post_freeze",
              "slots and extra_value are frozen before the post_freeze loop starts (%d freezing calls)" % len(freezing),
              "freeze_impl freezes part of the module (slots / extra_value) after the post_freeze loop has run: a def "
              "reachable only from that part is never given its module and optimised body, and calling it after the "
              "freeze panics", fn=fi)
    post_freeze_declaring_module(ctx, F)


def r2_list(ctx, F, rule="C04.R2"):
    own_list = r"list::value::ListData::<'v>::\w+$"
    own_arr = r"(array::Array::<'v>|list::value::ListData::<'v>)::\w+$"
    n = 0
    for pat, own, what in ((LIST_MUT, own_list, "ListData"), (ARRAY_MUT, own_arr, "Array")):
        for f, c in callers(F, pat):
            t = top_fn(F, f)
            if re.search(own, t.qpath):
                continue
            n += 1
            os_ = origins(f, c.args[0])
            kinds = set()
            for o in os_:
                if o[0] == "call":
                    nm = o[1].name
                    if re.search(r"ListData::<'v>::from_value_mut$", nm):
                        kinds.add("checked")
                    elif re.search(r"ListData::<'v>::from_value_unchecked_mut$", nm):
                        kinds.add("unchecked")
                    elif re.search(r"alloc_array$|alloc_raw$|Array::<'v>::new$|alloc_list", nm):
                        kinds.add("fresh")
                    elif re.search(r"Cell::<T>::get$", nm) and re.search(r"ListLike<'v>>::set_at$", t.qpath):
                        kinds.add("own-content")
                    else:
                        kinds.add("other:" + nm.split("::")[-1])
                else:
                    kinds.add(o[0])
            key = "%s->%s" % (short_fn(t.qpath), c.name.split("::")[-1])
            if kinds == {"checked"} or kinds == {"fresh"}:
                ctx.ok(rule, key, "receiver comes from the checked downcast / a list allocated in this body")
            elif kinds == {"unchecked"}:
                ctx.check(bool(re.search(r"InstrComprListAppend", t.qpath)), rule, key,
                          "unchecked receiver only in the comprehension append instruction (list not yet visible)",
                          "list mutator reached through from_value_unchecked_mut outside the comprehension handler",
                          fn=f, line=c.line)
            elif kinds == {"own-content"}:
                cm = calls_by_name(f, r"ListData::<'v>::check_can_mutate$")
                good = bool(cm) and any(f.dominates(m.bb, c.bb) and m.bb != c.bb for m in cm) and bool(
                    outcome_edges(F, f, cm[0], "Break"))
                ctx.check(good, rule, key, "dominated by check_can_mutate()? (error propagated)",
                          "ListData::set_at writes without a dominating check_can_mutate", fn=f, line=c.line)
            else:
                ctx.bad(rule, key,
                        "a %s mutator (`%s`) is called on a receiver that does not come from "
                        "ListData::from_value_mut (which fails for frozen lists and lists under iteration): %s"
                        % (what, c.name.split("::")[-1], sorted(kinds)), fn=f, line=c.line)
    ctx.floor(rule, "external list/array mutator call sites", n, 15, inventory=True)
    # from_value_mut: check_can_mutate dominates the Ok return, and its error is propagated
    fvm = F.one(r"list::value::ListData::<'v>::from_value_mut$")
    cm = calls_by_name(fvm, r"ListData::<'v>::check_can_mutate$")
    oks = [st for st in fvm.stmts if st.kind == "agg adt std::result::Result::Ok" and st.bb not in fvm.cleanup]
    dc = [c for c in fvm.calls if re.search(r"downcast_ref$", c.name)]
    good = bool(cm) and bool(oks) and bool(dc) and all(fvm.dominates(cm[0].bb, st.bb) for st in oks) and bool(
        outcome_edges(F, fvm, cm[0], "Break"))
    if good:
        ce = outcome_edges(F, fvm, cm[0], "Continue")
        good = bool(ce) and all(st.bb not in fvm.reach(0, cut_edges=ce) for st in oks)
    ctx.check(good, rule, "from_value_mut:checks",
              "from_value_mut returns Ok only on the Continue edge of check_can_mutate after the unfrozen downcast",
              "ListData::from_value_mut can return a mutable list without check_can_mutate succeeding", fn=fvm)
    gens = [c.full for c in dc]
    ctx.check(any("ListData" in g and "Frozen" not in g.split("downcast_ref")[-1] for g in gens), rule,
              "from_value_mut:unfrozen-downcast", "the success path downcasts to the unfrozen representation",
              "from_value_mut downcasts to something else than ListGen<ListData>", fn=fvm)
    # frozen sibling of set_at returns the error constant and touches nothing
    fs = F.one(r"<values::types::list::value::FrozenListData as values::types::list::value::ListLike<'v>>::set_at$")
    errs = [st for st in fs.stmts if "CannotMutateImmutableValue" in st.kind]
    writes = [c for c in fs.calls if re.search(ARRAY_MUT, c.name)]
    ctx.check(bool(errs) and not writes, rule, "frozen-list:set_at-fails",
              "FrozenListData::set_at only builds CannotMutateImmutableValue",
              "the frozen list's set_at no longer fails / writes content", fn=fs)


def r2b_inplace(ctx, F):
    """in-place operators (`+=` on lists, `|=` on dicts) succeed on the mutable-type arm only after the checked
    mutable downcast succeeded (it is the only place that rejects frozen values and values under iteration)"""
    for name, tytest, down in (("add_assign", r"ListData::<'v>::is_list_type$", r"ListData::<'v>::from_value_mut$"),
                               ("bit_or_assign", r"Dict::<'v>::is_dict_type$", r"dict::refs::DictMut::<'v>::from_value$")):
        f = F.one(r"eval::compiler::stmt::%s$" % name)
        tt = calls_by_name(f, tytest)
        dc = calls_by_name(f, down)
        oks = [st for st in f.stmts if st.kind == "agg adt std::result::Result::Ok" and st.bb not in f.cleanup]
        if not tt or not dc or not oks:
            ctx.bad("C04.R2", "inplace:%s:anchor" % name, "anchor-missing: type test / checked downcast / Ok", fn=f)
            continue
        from kern import bool_call_edges
        te = bool_call_edges(F, f, tt[0], "true")
        arm = set().union(*[f.reach([t]) for (_, t) in te]) if te else set()
        other = set().union(*[f.reach([t]) for (_, t) in bool_call_edges(F, f, tt[0], "false")])
        arm_oks = [st for st in oks if st.bb in arm and st.bb not in other]
        ce = outcome_edges(F, f, dc[0], "Continue") | outcome_edges(F, f, dc[0], "Ok")
        good = bool(arm_oks) and bool(ce) and all(st.bb not in f.reach(0, cut_edges=ce) for st in arm_oks)
        ctx.check(good, "C04.R2", "inplace:%s:success-needs-checked-downcast" % name,
                  "every Ok on the mutable-type arm is dominated by the success edge of the checked downcast",
                  "`%s` can return Ok for its mutable type without the checked mutable downcast having succeeded: "
                  "an in-place update of a frozen value (or of a container under iteration) silently succeeds" % name,
                  fn=f)


def r3_unchecked(ctx, F):
    for pat, allowed in ((r"dict::value::Dict::<'v>::from_value_unchecked_mut$", r"InstrComprDictInsert"),
                         (r"list::value::ListData::<'v>::from_value_unchecked_mut$", r"InstrComprListAppend"),
                         (r"set::value::SetData::<'v>::from_value_unchecked_mut$", r"InstrComprSet")):
        sites = callers(F, pat)
        if not sites and "SetData" in pat:
            continue
        ctx.floor("C04.R3", "callers of " + pat.split("::")[-3], len(sites), 1)
        for f, c in sites:
            t = top_fn(F, f)
            ctx.check(bool(re.search(allowed, t.qpath)), "C04.R3", "unchecked<-" + short_fn(t.qpath),
                      "unchecked mutable accessor used only by the comprehension instruction",
                      "`%s` (no frozen / iteration check) is called from `%s`" % (c.name, t.qpath), fn=f, line=c.line)
    # DictMut / SetMut producers fail on frozen and on borrowed
    for pat, frozen in ((r"dict::refs::DictMut::<'v>::from_value$", "FrozenDictData"),
                        (r"set::refs::SetMut::<'v>::from_value$", "FrozenSetData")):
        f = F.one(pat)
        tb = calls_by_name(f, r"RefCell::<T>::try_borrow_mut$")
        oks = [st for st in f.stmts if st.kind == "agg adt std::result::Result::Ok" and st.bb not in f.cleanup]
        good = bool(tb) and bool(oks)
        if good:
            oe = outcome_edges(F, f, tb[0], "Ok")
            good = bool(oe) and all(st.bb not in f.reach(0, cut_edges=oe) for st in oks)
        ctx.check(good, "C04.R3", short_fn(f.qpath) + ":try_borrow_mut",
                  "Ok(mutable ref) only on the Ok edge of try_borrow_mut of the unfrozen payload",
                  "%s can hand out a mutable reference without a successful try_borrow_mut" % f.qpath, fn=f)


# C04.R4 / C20.R1: reviewed writer sets of UnsafeCell/Cell fields in types that are Sync by `unsafe impl`
CELL_WRITERS = {
    ("starlark", "eval::compiler::def::StmtCompiledCell", "cell"): {
        "writers": [r"eval::compiler::def::StmtCompiledCell::set$"],
        "writer_callers": {r"eval::compiler::def::StmtCompiledCell::set$": [r"eval::compiler::def::DefGen::<values::layout::value::FrozenValue>::post_freeze$"]},
        "why": "written once per freeze by post_freeze, before the frozen module is visible to any other thread",
    },
    ("starlark", "values::types::enumeration::enum_type::EnumTypeGen", "elements"): {
        "writers": [r"enum_type::<impl .*>::enum_type::\{closure#\d+\}$|enum_type::EnumTypeGen::<'v, values::layout::value::Value<'v>>::\w+|enum_type::enum_type_elements_mut|EnumTypeGen.*"],
        "writer_callers": {},
        "why": "filled while the enum type is being constructed on the unfrozen heap (single-threaded), read-only afterwards",
    },
}


def cell_accessors(F, adt_path, field):
    """functions that take a pointer into the cell field (UnsafeCell::get & co) and whether they write through it"""
    out = []
    key = "{%s::%s}" % (adt_path, field)
    for f in F.fns.values():
        touch = [c for c in f.calls if re.search(r"cell::(UnsafeCell|Cell|RefCell)::<T>::(get|get_mut|raw_get|set|replace|borrow_mut|as_ptr|take)$",
                                                 c.name) and c.args and (key in c.args[0] or any(
            key in st.text() for st in f.stmts if st.lhs == re.sub(r"^(move|copy) ", "", c.args[0])))]
        if not touch:
            continue
        writes = False
        for c in touch:
            if re.search(r"::(set|replace|take|borrow_mut)$", c.name):
                writes = True
                continue
            ptr = c.dest_local
            al = {ptr}
            changed = True
            while changed:
                changed = False
                for st in f.stmts:
                    if st.lhs_local not in al and st.kind in ("use",) and any(x in al for x in locals_in(st.text())):
                        al.add(st.lhs_local)
                        changed = True
            for st in f.stmts:
                if any(st.lhs.startswith(a + ".*") for a in al):
                    writes = True
                if st.kind == "refmut" and any(st.ops[0].startswith(a + ".*") for a in al):
                    writes = True
            for c2 in f.calls:
                if re.search(r"ptr::(write|drop_in_place|replace|swap|copy|copy_nonoverlapping)$|mem::(replace|swap)$",
                             c2.name) and any(x in al for a in c2.args for x in locals_in(a)):
                    writes = True
        out.append((f, writes))
    return out


def r4_interior(ctx, F, prop_rule="C04.R4"):
    us = [i for i in F.impls if i["safety"].startswith("Unsafe") and re.search(r"marker::Sync$", i["trait"])
          and i["crate"] == "starlark"]
    ctx.floor(prop_rule, "unsafe impl Sync in starlark", len(us), 12, inventory=True)
    vb = ValueBearing(F)
    RACE_FREE = re.compile(r"^(std::sync::atomic::|std::sync::(Mutex|RwLock|OnceLock|LazyLock|Once)<|once_cell::sync::|"
                           r"parking_lot::|std::marker::PhantomData)")
    for i in us:
        if i["selfadt"] == "-":
            continue
        adt = vb.adt_for(i["crate"], i["selfadt"])
        if adt is None or adt.freeze:
            ctx.ok(prop_rule, "sync:" + i["selfadt"] + ":(no interior mutability)")
            continue
        for fd in adt.fields:
            if fd["freeze"]:
                continue
            ty = fd["ty"]
            key = "sync:%s.%s" % (i["selfadt"], fd["name"])
            if RACE_FREE.search(ty):
                ctx.ok(prop_rule, key, "race-free cell type " + ty[:50])
                continue
            if re.match(r"^[A-Z]\w*$", ty):
                ctx.ok(prop_rule, key, "generic parameter: Sync is required of it by the impl's bounds")
                continue
            ent = CELL_WRITERS.get((i["crate"], i["selfadt"], fd["name"]))
            if re.search(r"cell::(UnsafeCell|Cell|RefCell)<", ty):
                acc = cell_accessors(F, adt.path, fd["name"])
                writers = [f for f, w in acc if w]
                if ent is None:
                    ctx.bad(prop_rule, key, "type is Sync by `unsafe impl` and field `%s: %s` is an unsynchronised cell "
                                            "with no reviewed writer set" % (fd["name"], ty[:60]))
                    continue
                for w in writers:
                    okw = any(re.search(p, w.qpath) for p in ent["writers"])
                    ctx.check(okw, prop_rule, key + ":writer:" + short_fn(w.qpath),
                              "reviewed writer (%s)" % ent["why"],
                              "`%s` writes through the unsynchronised cell `%s.%s` of a type that is Sync by unsafe impl "
                              "and is not a reviewed writer" % (w.qpath, i["selfadt"], fd["name"]), fn=w)
                    for p, allowed in ent["writer_callers"].items():
                        if re.search(p, w.qpath):
                            for g, c in [(g, c) for g in F.fns.values() for c in g.calls
                                         if not c.indirect and c.callee_uid() == w.uid]:
                                t = top_fn(F, g)
                                ctx.check(any(re.search(a, t.qpath) for a in allowed), prop_rule,
                                          key + ":writer-caller:" + short_fn(t.qpath),
                                          "the writer is called only from its reviewed caller",
                                          "the cell writer `%s` is now also called from `%s`" % (w.qpath, t.qpath),
                                          fn=g, line=c.line)
                if not writers:
                    ctx.ok(prop_rule, key + ":no-writer", "no function writes through the cell")
            else:
                # a nested type: recurse one level by name (Arena, AllocStaticSimple<Array>, ...)
                ctx.ok(prop_rule, key + ":nested", "nested type %s (its own cells are inventoried separately)" % ty[:50])


def r4_array(ctx, F, rule="C04.R4"):
    """the process-wide empty array: counter writes are guarded by !is_statically_allocated"""
    for name in ("inc_iter_count", "dec_iter_count"):
        f = F.one(r"values::types::array::Array::<'v>::%s$" % name)
        guard = calls_by_name(f, r"Array::<'v>::is_statically_allocated$")
        writes = [st for st in f.stmts if re.match(r"_\d+\.\*", st.lhs) and st.bb not in f.cleanup]
        good = bool(guard) and bool(writes)
        if good:
            from kern import bool_call_edges
            fe = bool_call_edges(F, f, guard[0], "false")
            good = bool(fe) and all(st.bb not in f.reach(0, cut_edges=fe) for st in writes)
        ctx.check(good, rule, "Array::%s:static-guard" % name,
                  "the counter is written only on the !is_statically_allocated edge",
                  "Array::%s writes iter_count of the process-wide static empty array (shared between threads)" % name,
                  fn=f)


MUT_VIEW = r"(DictMut::<'v>::from_value|ListData::<'v>::from_value_mut|SetMut::<'v>::from_value)$"


def r5_mutators_acquire(ctx, F):
    """a native method that acquires the mutable view of a list/dict/set on some path (so: a mutator) acquires it on
    every path that returns success: the acquisition is where a frozen container (and one being iterated) is rejected,
    so a successful return that bypasses it lets the operation succeed on a frozen value"""
    from kern import calls_to, natives
    n_m = 0
    for n in natives(F):
        if n.impl is None:
            continue
        f = n.impl
        fs = [f] + list(F.closures_of(f))
        anywhere = [c for g in fs for c in calls_to(F, g, MUT_VIEW) if c.bb not in g.cleanup]
        if not anywhere:
            continue
        n_m += 1
        own = [c for c in calls_to(F, f, MUT_VIEW) if c.bb not in f.cleanup]
        err = [st.bb for st in f.stmts if st.kind == "agg adt std::result::Result::Err"] + [
            c.bb for c in f.calls if c.name.endswith("from_residual")]
        ty = re.search(r"(\w+?)_METHODS_STATICS", n.builder.qpath)
        nm = (ty.group(1).lower() + "." if ty else "") + n.name
        ctx.check(bool(own) and f.must_pass_from_entry([c.bb for c in own] + err, f.returns()), "C04.R5",
                  "mutator-acquires-mut-view:" + nm,
                  "every successful path passes the mutable-view acquisition (frozen / iterated containers are rejected there)",
                  "`%s` can return successfully without acquiring the mutable view (DictMut/ListData::from_value_mut/"
                  "SetMut): on that path the method succeeds on a frozen container (and on one that is being iterated) "
                  "instead of failing" % nm, fn=f)
    ctx.floor("C04.R5", "mutator natives", n_m, 17, inventory=True)


def run(ctx):
    F = ctx.facts("core")
    r5_mutators_acquire(ctx, F)
    # an augmented assignment is never optimised away (it must still fail on a frozen target): shared with C02.R9
    from rules.C02 import r9_statements_kept
    r9_statements_kept(ctx, F, rule="C04.R6")
    vb = ValueBearing(F)
    r1_freeze(ctx, F, vb)
    r2_list(ctx, F)
    r2b_inplace(ctx, F)
    r3_unchecked(ctx, F)
    r4_interior(ctx, F)
    r4_array(ctx, F)
