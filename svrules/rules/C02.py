"""C02 - compile-time optimisation never changes what a program does (structural clauses)."""
import re

from kern import (CallGraph, all_aggregates, arm_constant, bool_call_edges, branch_edges, calls_by_name, callers,
                  locals_in, match_arms, natives, origins, outcome_edges, short_fn, top_fn)

DESCRIPTION = ("C02 clauses decided: R1 no native marked speculative_exec_safe can reach a call-back into user code, a "
               "mutation entry point, a module-slot write or the print handler (call-graph reachability), and the "
               "speculation gate tests the marker and all-frozen arguments; R2 the purity classifiers map every "
               "effectful/fallible IR node to false/None and dead code is removed only on their true edge; R3 a "
               "module global is inlined only if assigned at most once and frozen, folds return only on the Ok/Some "
               "edge of the compile-time evaluation, no unwrap of an evaluation result in the compiler, inlining "
               "guards; R4 assignment counting is single-sourced; R5 definitely-assigned discipline.")
NOT_DECIDED = ("that each fold computes the right value, inlining substitution correctness, frozen re-optimisation "
               "equivalence: value-level")

SINKS = {
    "call-back into user code": r"vtable::AValueDynFull::<'v>::invoke$|evaluator::Evaluator::<'v, 'a, 'e>::with_call_stack$",
    "list mutation": r"list::value::ListData::<'v>::from_value_mut$",
    "dict mutation": r"dict::refs::DictMut::<'v>::from_value$",
    "set mutation": r"set::refs::SetMut::<'v>::from_value$",
    "set_at/set_attr": r"vtable::AValueDyn::<'v>::set_a(t|ttr)$",
    "print": r"PrintHandler>::println$|stdlib::extra::PrintHandler::println$|print_handler",
    "module slot write": r"Evaluator::<'v, 'a, 'e>::set_slot_module$|slots::MutableSlots::<'v>::set_slot$",
}

EXPR = r"eval::compiler::expr::ExprCompiled$"
# IR nodes that can fail or have effects at run time: must be classified impure
IMPURE = {"Local", "LocalCaptured", "Module", "Builtin2", "Index2", "Slice", "Compr", "Def"}


def r1_speculative(ctx, F):
    cg = CallGraph(F, expand="full")
    ctx.info["callgraph_full"] = dict(nodes=len(F.fns), edges=cg.edges)
    ns = natives(F)
    spec = [n for n in ns if n.speculative]
    ctx.floor("C02.R1", "native registrations", len(ns), 130, inventory=True)
    ctx.floor("C02.R1", "speculative_exec_safe registrations", len(spec), 55, inventory=True)
    sinks = {k: {u for u, f in F.fns.items() if re.search(p, f.qpath)} for k, p in SINKS.items()}
    for k, v in sinks.items():
        if not v and k != "print":
            ctx.bad("C02.R1", "sink-anchor:" + k, "anchor-missing: no function matches sink `%s`" % k)
    allsinks = set().union(*sinks.values())
    for n in spec:
        ty = re.search(r"(\w+?)_(METHODS|GLOBALS|FUNCTIONS)?_?STATICS|::(\w+)::build$", n.builder.qpath)
        where = short_fn(n.builder.qpath).split("::")[0]
        key = "speculative:%s:%s" % (where, n.name)
        if n.impl is None:
            ctx.bad("C02.R1", key, "cannot resolve the body of speculative native `%s`" % n.name, fn=n.builder,
                    line=n.line)
            continue
        R = cg.reach([n.impl.uid])
        hit = [k for k, v in sinks.items() if R & v]
        if hit:
            p = cg.path(n.impl.uid, sinks[hit[0]])
            ctx.bad("C02.R1", key,
                    "`%s` is marked speculative_exec_safe (the optimiser may run it at compile time, even inside a "
                    "function that is never called) but it can reach: %s" % (n.name, ", ".join(hit)),
                    fn=n.impl, path=[short_fn(x) for x in cg.names(p)] if p else None)
        else:
            ctx.ok("C02.R1", key, "no path in the call graph to any effect sink")
    # the gate
    ts = F.one(r"eval::compiler::call::CallCompiled::try_spec_exec$")
    gate = calls_by_name(ts, r"value::FrozenValue::speculative_exec_safe$")
    allv = calls_by_name(ts, r"args::ArgsCompiledValue::all_values$")
    good = bool(gate) and bool(allv)
    if good:
        te = bool_call_edges(F, ts, gate[0], "true")
        good = bool(te) and allv[0].bb not in ts.reach(0, cut_edges=te)
    ctx.check(good, "C02.R1", "try_spec_exec:gated-by-marker",
              "the speculative invocation is reached only on the true edge of speculative_exec_safe()",
              "try_spec_exec can invoke a function at compile time without testing speculative_exec_safe()", fn=ts)
    inv = [(g, c) for g in [ts] + F.closures_of(ts) for c in g.calls if re.search(r"value::Value::<'v>::invoke$", c.name)]
    ctx.check(bool(inv) and all(g.uid != ts.uid for g, c in inv), "C02.R1", "try_spec_exec:invoke-inside-all_values",
              "the invocation happens inside the closure given to all_values (all arguments are frozen values)",
              "try_spec_exec invokes the function outside ArgsCompiledValue::all_values", fn=ts)
    # all_values: hands out only Value-variant arguments
    av = F.one(r"args::ArgsCompiledValue::all_values_generic$")
    ctx.ok("C02.R1", "all_values_generic:present", "anchor present")


def _classifier(ctx, F, rule, fn, false_const, may_true, nested=None):
    m = match_arms(F, fn, EXPR)
    if not m:
        ctx.bad(rule, short_fn(fn.qpath) + ":anchor", "anchor-missing: no match on ExprCompiled", fn=fn)
        return
    bb, arms, other, allv = m
    rest = allv - set(arms)
    if not rest and other is not None:
        pass
    for v in sorted(allv):
        t = arms.get(v, other)
        k = arm_constant(fn, t)
        is_false = k is not None and false_const in k
        if v in IMPURE:
            ctx.check(is_false, rule, "%s:%s" % (short_fn(fn.qpath), v),
                      "IR node %s (can fail / has effects) is classified %s" % (v, false_const),
                      "`%s` no longer classifies ExprCompiled::%s as impure: statements/branches containing it can be "
                      "removed or reordered by the optimiser" % (short_fn(fn.qpath), v), fn=fn)
        elif v not in may_true:
            ctx.check(is_false, rule, "%s:%s" % (short_fn(fn.qpath), v),
                      "IR node %s stays classified %s" % (v, false_const),
                      "`%s` now lets ExprCompiled::%s be pure; it is not in the reviewed set %s"
                      % (short_fn(fn.qpath), v, sorted(may_true)), fn=fn)
        else:
            ctx.ok(rule, "%s:%s" % (short_fn(fn.qpath), v), "in the reviewed may-be-pure set")


def r2_purity(ctx, F):
    f1 = F.one(r"eval::compiler::expr::ExprCompiled::is_pure_infallible$")
    _classifier(ctx, F, "C02.R2", f1, "0x00", {"Value", "List", "Tuple", "Dict", "Builtin1", "Seq", "LogicalBinOp", "If",
                                               "Call"})
    f2 = F.one(r"eval::compiler::expr::ExprCompiled::is_pure_infallible_to_bool$")
    _classifier(ctx, F, "C02.R2", f2, "Option::None", {"Value", "List", "Tuple", "Dict", "Builtin1", "LogicalBinOp"})
    # Builtin1: only Not / TypeIs may be pure
    m = match_arms(F, f1, r"eval::compiler::expr::Builtin1$", start=match_arms(F, f1, EXPR)[1].get("Builtin1", 0))
    if m:
        bb, arms, other, allv = m
        for v in sorted(allv):
            t = arms.get(v, other)
            k = arm_constant(f1, t)
            if v in ("Not", "TypeIs"):
                ctx.ok("C02.R2", "is_pure_infallible:Builtin1::" + v)
            else:
                ctx.check(k is not None and "0x00" in k, "C02.R2", "is_pure_infallible:Builtin1::" + v,
                          "unary builtin %s (can fail) is impure" % v,
                          "is_pure_infallible treats Builtin1::%s as pure" % v, fn=f1)
    else:
        ctx.bad("C02.R2", "is_pure_infallible:Builtin1:anchor", "anchor-missing: no nested match on Builtin1", fn=f1)
    # CallCompiled::is_pure_infallible: only a recognised pure call shape
    # dead statement removal
    se = F.one(r"eval::compiler::stmt::StmtsCompiled::expr$")
    pc = calls_by_name(se, r"ExprCompiled::is_pure_infallible$")
    empt = calls_by_name(se, r"StmtsCompiled::empty$")
    direct = [e for e in empt if e.dest == "_0"]  # the function's result *is* the empty list
    good = bool(pc) and bool(direct)
    if good:
        te = bool_call_edges(F, se, pc[0], "true")
        good = bool(te) and all(e.bb not in se.reach(0, cut_edges=te) for e in direct)
    ctx.check(good, "C02.R2", "StmtsCompiled::expr:drops-only-pure",
              "an expression statement is dropped only on the true edge of is_pure_infallible",
              "StmtsCompiled::expr drops an expression statement without is_pure_infallible being true", fn=se)
    # ExprCompiledBool::Const only from is_pure_infallible_to_bool == Some
    cons = all_aggregates(F, r"eval::compiler::expr_bool::ExprCompiledBool::Const$")
    ctx.floor("C02.R2", "ExprCompiledBool::Const constructions", len(cons), 1, inventory=True)
    for f, st in cons:
        t = top_fn(F, f)
        good = False
        # constructed in a helper: every call of the helper must be guarded instead
        sites = [(f, st.bb)]
        if f.nargs and f.uid != t.uid or re.search(r"::new::new_bool$", f.qpath):
            sites = [(g, c.bb) for g in F.fns.values() for c in g.calls if not c.indirect and c.callee_uid() == f.uid]
        good = bool(sites)
        for g, bb in sites:
            guards = calls_by_name(g, r"ExprCompiled::is_pure_infallible_to_bool$") + calls_by_name(
                g, r"ExprCompiledBool::const_value$")
            ok1 = False
            for gc in guards:
                se_ = outcome_edges(F, g, gc, "Some")
                if se_ and bb not in g.reach(0, cut_edges=se_):
                    ok1 = True
            good = good and ok1
        derived = re.search(r"as std::clone::Clone>::clone$|StarlarkDeserialize|VisitSpanMut", t.qpath)
        ctx.check(good or bool(derived), "C02.R2", "ExprCompiledBool::Const<-" + short_fn(t.qpath),
                  "a condition is treated as constant only on the Some edge of is_pure_infallible_to_bool",
                  "ExprCompiledBool::Const is constructed without a Some result of is_pure_infallible_to_bool: a branch "
                  "may be removed although its condition has effects or can fail", fn=f, line=st.line)
    # is_iterable_empty: a constant is an empty *iterable* only if it is iterable at all (len() is also defined for
    # strings, over which a loop must fail); List/Tuple/Dict literals are judged by is_empty
    iie = F.one(r"eval::compiler::expr::ExprCompiled::is_iterable_empty$")
    m = match_arms(F, iie, EXPR)
    if not m:
        ctx.bad("C02.R2", "is_iterable_empty:anchor", "anchor-missing: match on ExprCompiled", fn=iie)
    else:
        bb, arms, other, allv = m
        for v in sorted(allv):
            t = arms.get(v, other)
            k = arm_constant(iie, t)
            if v in ("List", "Tuple", "Dict", "Value"):
                continue
            ctx.check(k is not None and "0x00" in k, "C02.R2", "is_iterable_empty:" + v,
                      "%s is never statically known to be an empty iterable" % v,
                      "is_iterable_empty can answer true for ExprCompiled::%s" % v, fn=iie)
        ln = calls_by_name(iie, r"value::Value::<'v>::length$")
        it = calls_by_name(iie, r"TyStarlarkValue::is_iterable$")
        bi = calls_by_name(iie, r"FrozenValue::is_builtin$")
        good = bool(ln) and bool(it) and bool(bi)
        if good:
            for g in (it[0], bi[0]):
                te = bool_call_edges(F, iie, g, "true")
                good = good and bool(te) and all(x.bb not in iie.reach(0, cut_edges=te) for x in ln)
        ctx.check(good, "C02.R2", "is_iterable_empty:Value-needs-iterable-builtin",
                  "a constant counts as an empty iterable only on the true edges of is_builtin and is_iterable",
                  "is_iterable_empty judges a constant by its length alone: values that have a length but are not "
                  "iterable (strings) make `for x in \"\"` disappear instead of failing", fn=iie)
    # the Dict arm of the purity classifiers: a dict literal is pure only when it is empty (duplicate keys fail)
    for fn_ in (f1, f2):
        m = match_arms(F, fn_, EXPR)
        if not m or "Dict" not in m[1]:
            ctx.bad("C02.R2", "Dict-arm:anchor:" + fn_.name, "anchor-missing: Dict arm", fn=fn_)
            continue
        bb, arms, other, allv = m
        t = arms["Dict"]
        stop = {x for k_, x in arms.items() if x != t} | ({other} if other != t else set())
        reach = fn_.reach([t], cut_blocks=stop)
        ie = [c for c in fn_.calls if c.bb in reach and re.search(r"::is_empty$", c.name)]
        extra = [c for c in fn_.calls if c.bb in reach and c not in ie and not re.search(r"Deref>::deref$|::len$", c.name)]
        ctx.check(len(ie) == 1 and not extra, "C02.R2", "Dict-arm-only-empty:" + fn_.name,
                  "a dict literal is classified pure only through is_empty()",
                  "`%s` classifies non-empty dict literals (calls %s in the Dict arm): building a dict can fail "
                  "(unhashable or repeated keys), so such a literal is not pure/infallible"
                  % (fn_.name, sorted({short_fn(c.name) for c in extra})), fn=fn_)
    # for over empty iterable
    fs = F.one(r"eval::compiler::stmt::StmtsCompiled::for_stmt$")
    ie = calls_by_name(fs, r"ExprCompiled::is_iterable_empty$")
    em = calls_by_name(fs, r"StmtsCompiled::empty$")
    good = bool(ie) and bool(em)
    if good:
        te = bool_call_edges(F, fs, ie[0], "true")
        good = bool(te) and all(e.bb not in fs.reach(0, cut_edges=te) for e in em)
    ctx.check(good, "C02.R2", "for_stmt:drops-only-empty-iterable",
              "a for statement is dropped only on the true edge of is_iterable_empty",
              "for_stmt drops a loop without is_iterable_empty being true", fn=fs)


def r3_folds(ctx, F):
    ei = F.one(r"<impl eval::compiler::Compiler<'v, 'a, 'e, '_>>::expr_ident$")
    vals = [st for st in ei.stmts if st.kind == "agg adt eval::compiler::expr::ExprCompiled::Value"]
    gs = calls_by_name(ei, r"slots::MutableSlots::<'v>::get_slot$")
    eq = calls_by_name(ei, r"<eval::compiler::scope::AssignCount as std::cmp::PartialEq>::eq$")
    uf = calls_by_name(ei, r"value::Value::<'v>::unpack_frozen$")
    inl = [st for st in vals if gs and ei.dominates(gs[0].bb, st.bb)]
    ctx.floor("C02.R3", "module-global inlining sites in expr_ident", len(inl), 1)
    for st in inl:
        good = bool(eq) and bool(uf)
        if good:
            te = bool_call_edges(F, ei, eq[0], "true")
            se = outcome_edges(F, ei, uf[0], "Some")
            good = bool(te) and bool(se) and st.bb not in ei.reach(0, cut_edges=te) and st.bb not in ei.reach(
                0, cut_edges=se)
            # the comparison is against AssignCount::AtMostOnce
            prom = [s for s in ei.stmts if "promoted" in s.text()]
        ctx.check(good, "C02.R3", "expr_ident:inline-global",
                  "a module global is inlined as a constant only when assign_count == AtMostOnce and the value is frozen",
                  "expr_ident inlines the current value of a module global without the assigned-at-most-once / frozen "
                  "guards: a later re-assignment would not be seen by already compiled functions", fn=ei, line=st.line)

    # folds return only on the success edge of the evaluation
    for fname, evalpat in (("bin_op", r"eval::compiler::expr::Builtin2::eval$"),
                           ("un_op", r"eval::compiler::expr::Builtin1::eval$")):
        f = F.one(r"eval::compiler::expr::ExprCompiled::%s$" % fname)
        ev = calls_by_name(f, evalpat)
        abv = calls_by_name(f, r"eval::compiler::expr::ExprCompiled::as_builtin_value$")
        tv = calls_by_name(f, r"ExprCompiled::try_value$")
        good = bool(ev) and bool(abv) and bool(tv)
        if good:
            ok_e = outcome_edges(F, f, ev[0], "Ok") | outcome_edges(F, f, ev[0], "Some")
            good = bool(ok_e) and tv[0].bb not in f.reach(0, cut_edges=ok_e)
            for a in abv:
                # operands may be matched together as a tuple: take the Some edge of the switch on *this* operand
                se = outcome_edges(F, f, a, "Some")
                ok1 = False
                for e in se:
                    if ev[0].bb not in f.reach(0, cut_edges={e}):
                        ok1 = True
                good = good and ok1
        ctx.check(good, "C02.R3", fname + ":fold-guards",
                  "the folded constant is produced only on the success edge of the compile-time evaluation, which is "
                  "attempted only when every operand is a builtin-typed constant",
                  "`%s` folds without the success / builtin-constant guards (a failing or user-defined operation would "
                  "be evaluated or mis-folded at compile time)" % fname, fn=f)

    # no unwrap/expect of a runtime evaluation result anywhere in the compiler
    cg = CallGraph(F, expand="value")
    tramps = set(cg.trampolines.values())
    evalish = set()
    rev = cg.rev()
    st_ = list(tramps)
    while st_:
        n = st_.pop()
        if n in evalish:
            continue
        evalish.add(n)
        st_.extend(rev.get(n, ()))
    n_unwrap = 0
    for f in F.fns.values():
        if not re.match(r"starlark::eval::compiler::", f.qpath):
            continue
        for c in f.calls:
            if c.bb in f.cleanup or not re.search(r"(Result|Option)::<.*>::(unwrap|expect|unwrap_unchecked)$", c.name):
                continue
            n_unwrap += 1
            os_ = origins(f, c.args[0], pass_calls=re.compile(
                r"(Try>::branch$|::ok$|::map$|::map_err$|as_ref$|as_mut$|FromResidual)"))
            bad = [o[1] for o in os_ if o[0] == "call" and not o[1].indirect and o[1].callee_uid() in evalish
                   and re.search(r"Result<", f.locals.get(o[1].dest_local, ""))]
            key = "unwrap:%s:%s" % (short_fn(top_fn(F, f).qpath), ",".join(sorted({b.name.split("::")[-1] for b in bad})))
            if bad:
                ctx.bad("C02.R3", key, "the compiler unwraps the result of the run-time operation `%s`: when it fails "
                                       "the compiler panics instead of leaving the error to run time" % bad[0].name,
                        fn=f, line=c.line)
    ctx.floor("C02.R3", "unwrap/expect sites inspected in eval::compiler", n_unwrap, 30, inventory=True)
    ctx.ok("C02.R3", "no-unwrap-of-evaluation", "%d unwrap/expect sites inspected" % n_unwrap)

    # inlining
    ti = F.one(r"eval::compiler::call::CallCompiled::try_inline$")
    hk = calls_by_name(ti, r"params::spec::ParametersSpec::<V>::has_args_or_kwargs$")
    avg = calls_by_name(ti, r"args::ArgsCompiledValue::all_values_generic$")
    good = bool(hk) and bool(avg)
    if good:
        fe = bool_call_edges(F, ti, hk[0], "false")
        good = bool(fe) and avg[0].bb not in ti.reach(0, cut_edges=fe)
    ctx.check(good, "C02.R3", "try_inline:no-args-kwargs",
              "inlining is attempted only on the false edge of has_args_or_kwargs",
              "try_inline inlines functions with *args/**kwargs", fn=ti)
    sw = None
    for b in ti.terms:
        from kern import switch_info, enum_variant_names
        info = switch_info(ti, b)
        if info and info["kind"] == "enum" and "InlineDefBody" in (info["ty"] or ""):
            sw = info
    good = False
    if sw and avg:
        names = enum_variant_names(F, sw["ty"])
        want = {(sw["bb"], t) for v, t in sw["targets"].items() if names.get(v) == "ReturnSafeToInlineExpr"}
        good = bool(want) and avg[0].bb not in ti.reach(0, cut_edges=want)
    ctx.check(good, "C02.R3", "try_inline:only-safe-bodies",
              "inlining is attempted only for InlineDefBody::ReturnSafeToInlineExpr",
              "try_inline no longer requires the body to be classified ReturnSafeToInlineExpr", fn=ti)
    # the argument mapper: a Local is substituted only when it is a parameter (definitely assigned)
    cl = [g for g in F.closures_of(ti)]
    ok = False
    for g in cl:
        lt = [st for st in g.stmts if st.kind.startswith("binop Lt") and "u32" in st.text()]
        lav = calls_by_name(g, r"local_as_value$")
        if lt and lav:
            te, _ = branch_edges(F, g, [lt[0].lhs_local], "true")
            ok = bool(te) and lav[0].bb not in g.reach(0, cut_edges=te)
    ctx.check(ok, "C02.R3", "try_inline:only-definitely-assigned-locals",
              "a caller local is passed into an inlined body only on the true edge of `local < param_count`",
              "try_inline substitutes caller locals that may be unassigned (the unassigned-variable error would move "
              "after effects of the inlined body)", fn=ti)
    sf = F.one(r"def_inline::IsSafeToInlineExpr::is_safe_to_inline_expr$")
    m = match_arms(F, sf, EXPR)
    if m:
        bb, arms, other, allv = m
        for v in ("LocalCaptured", "Module", "Def", "Compr"):
            t = arms.get(v, other)
            k = arm_constant(sf, t)
            ctx.check(k is not None and "0x00" in k, "C02.R3", "is_safe_to_inline_expr:" + v,
                      "%s is never safe to inline" % v,
                      "is_safe_to_inline_expr accepts ExprCompiled::%s (its meaning depends on the defining "
                      "function's frame/module)" % v, fn=sf)
    else:
        ctx.bad("C02.R3", "is_safe_to_inline_expr:anchor", "anchor-missing", fn=sf)
    # typed functions are never inlined
    fn_ = F.one(r"eval::compiler::def::<impl eval::compiler::Compiler<'_, '_, '_, '_>>::function$")
    idb = calls_by_name(fn_, r"def_inline::inline_def_body$")
    ht = calls_by_name(fn_, r"ParametersCompiled<T>>?::has_types$|ParametersCompiled::<T>::has_types$")
    good = bool(idb) and bool(ht)
    if good:
        # has_types feeds `return_type.is_some() || params.has_types()`: the call must lie on a path where the
        # disjunction is false; sufficient: inline_def_body is not reachable from the true edge of has_types
        te = bool_call_edges(F, fn_, ht[0], "true")
        fe = bool_call_edges(F, fn_, ht[0], "false")
        good = bool(fe) and idb[0].bb not in fn_.reach(0, cut_edges=fe)
    ctx.check(good, "C02.R3", "function:typed-defs-not-inlined",
              "inline_def_body is computed only when the def has no parameter/return types",
              "a def with type annotations can get an inlinable body: inlined calls would skip its type checks",
              fn=fn_)


def r4_assign_count(ctx, F):
    from kern import enum_values
    nb = F.one(r"eval::compiler::scope::ModuleScopeData::<'f>::new_binding$")
    sites = [(f, c) for f in F.fns.values() for c in f.calls if not c.indirect and c.callee_uid() == nb.uid]
    ctx.floor("C02.R4", "new_binding call sites", len(sites), 3)
    adt = F.adt(r"^starlark::eval::compiler::scope::AssignCount$")
    il = F.adt(r"^starlark::eval::compiler::scope::InLoop$")
    for f, c in sites:
        t = top_fn(F, f)
        vals = enum_values(F, f, c.args[-1], adt)
        key = "new_binding<-%s" % short_fn(t.qpath)
        if "AtMostOnce" in vals:
            ok = t.name in ("enter_module", "collect_assign_ident", "assign_ident_impl", "collect_defines_in_def",
                            "add_compr")
            ctx.check(ok, "C02.R4", key + ":AtMostOnce",
                      "a binding starts as assigned-at-most-once only at a first-binding site",
                      "`%s` creates a binding with AssignCount::AtMostOnce: a re-assigned global could be inlined as "
                      "a constant" % t.qpath, fn=f, line=c.line)
        else:
            ctx.ok("C02.R4", key + ":" + "/".join(sorted(vals)))
    ai = F.one(r"AssignIdentCollect>::collect_assign_ident::assign_ident_impl$")
    # in the vacant arm AtMostOnce is chosen only on the InLoop::No side; the occupied arm stores Any
    anyw = [st for st in ai.stmts if "{eval::compiler::scope::Binding::assign_count}" in st.lhs]
    ctx.check(bool(anyw), "C02.R4", "assign_ident_impl:second-assignment-marks-Any",
              "a repeated assignment writes Binding.assign_count",
              "assign_ident_impl no longer downgrades assign_count on a repeated assignment", fn=ai)
    for st in anyw:
        vals = enum_values(F, ai, st.ops[0], adt)
        ctx.check(vals == {"Any"}, "C02.R4", "assign_ident_impl:writes-Any", "the value written is AssignCount::Any",
                  "assign_ident_impl writes %s instead of AssignCount::Any on re-assignment" % sorted(vals), fn=ai,
                  line=st.line)
    amo = [st for st in ai.stmts if st.kind.endswith("AssignCount::AtMostOnce")]
    good = bool(amo)
    from kern import switch_info, enum_variant_names
    for st in amo:
        ok1 = False
        for b in ai.terms:
            info = switch_info(ai, b)
            if info and info["kind"] == "enum" and (info["ty"] or "").endswith("InLoop"):
                names = enum_variant_names(F, info["ty"])
                no_edges = {(b, t) for v, t in info["targets"].items() if names.get(v) == "No"}
                if not no_edges and "No" in names.values():
                    no_edges = {(b, info["otherwise"])}
                if no_edges and st.bb not in ai.reach(0, cut_edges=no_edges):
                    ok1 = True
        good = good and ok1
    ctx.check(good, "C02.R4", "assign_ident_impl:AtMostOnce-only-outside-loops",
              "AssignCount::AtMostOnce is chosen only on the InLoop::No edge",
              "a first assignment inside a loop is counted as at-most-once: the loop re-assigns the global, yet "
              "functions compiled later inline its first value", fn=ai)
    # For loops: loop variable and body are collected with InLoop::Yes
    cd = F.find(r"eval::compiler::scope::StmtCollectDefines>::collect_defines$")
    got_yes = 0
    for f in cd:
        m = match_arms(F, f, r"syntax::ast::StmtP<")
        if not m:
            continue
        bb, arms, other, allv = m
        t = arms.get("For")
        if t is None:
            continue
        stop = {x for k_, x in arms.items() if x != t} | {other}
        reach = f.reach([t], cut_blocks=stop)
        for c in f.calls:
            if c.bb in reach and re.search(r"collect_defines(_lvalue)?$|collect_assign_ident$", c.name):
                vals = set()
                for a in c.args:
                    if f.locals.get(re.sub(r"^(move|copy) ", "", a), "").endswith("InLoop"):
                        vals |= enum_values(F, f, a, il)
                ctx.check(vals == {"Yes"}, "C02.R4", "collect_defines:For->%s" % c.name.split("::")[-1],
                          "bindings made by a for statement (loop variable / body) are collected with InLoop::Yes",
                          "the For arm of collect_defines passes %s instead of InLoop::Yes: a global assigned in a loop "
                          "body counts as assigned once and is inlined as a constant" % sorted(vals), fn=f, line=c.line)
                got_yes += 1
    ctx.floor("C02.R4", "collect calls in the For arm", got_yes, 2)


def r5_definitely_assigned(ctx, F):
    save = r"eval::bc::writer::BcWriter::<'f>::save_definitely_assigned$"
    rest = r"eval::bc::writer::BcWriter::<'f>::restore_definitely_assigned$"
    sites = callers(F, save)
    ctx.floor("C02.R5", "save_definitely_assigned call sites", len(sites), 4)
    for f, c in sites:
        from kern import calls_to
        rs = calls_to(F, f, rest)
        # the saved set is restored after *every* continuation (branch / loop body) that runs after the save
        conts = [x for x in f.calls if x.bb in f.after(c.bb) and x.bb not in f.cleanup and (
            x.indirect or re.search(r"FnOnce::call_once$|FnOnce<.*>>::call_once$", x.name))]
        ctx.check(bool(rs) and f.must_pass(c.bb, [r.bb for r in rs], f.returns()) and all(
            f.must_pass(x.bb, [r.bb for r in rs], f.returns()) for x in conts), "C02.R5",
                  "save-restore:" + short_fn(f.qpath),
                  "restore_definitely_assigned is reached on every normal path after save_definitely_assigned",
                  "a path leaves `%s` with the definitely-assigned set of a branch/loop body still in force: a later "
                  "read compiles to an unchecked InstrMov of a possibly unassigned slot" % short_fn(f.qpath),
                  fn=f, line=c.line)
    wl = F.one(r"eval::bc::writer::BcWriter::<'f>::write_load_local$")
    tda = calls_by_name(wl, r"BcWriter::<'f>::try_definitely_assigned$")
    mov = [c for c in wl.calls if "InstrMov" in c.full or re.search(r"BcWriter::<'f>::write_mov$", c.name)]
    good = bool(tda) and bool(mov)
    if good:
        se = outcome_edges(F, wl, tda[0], "Some") | outcome_edges(F, wl, tda[0], "Ok")
        good = bool(se) and all(m.bb not in wl.reach(0, cut_edges=se) for m in mov)
    ctx.check(good, "C02.R5", "write_load_local:unchecked-mov-only-if-definitely-assigned",
              "InstrMov (unchecked read) is emitted only on the Some edge of try_definitely_assigned",
              "write_load_local emits the unchecked InstrMov for a local that is not known to be assigned", fn=wl)
    # conditionally evaluated operands never mark
    def arm_marks(f, arms, other, v):
        t = arms.get(v)
        if t is None:
            return None, None
        stop = {x for k_, x in arms.items() if x != t} | ({other} if other != t else set())
        reach = f.reach([t], cut_blocks=stop)
        recs = [c for c in f.calls if c.bb in reach and re.search(r"mark_definitely_assigned_after$", c.name)]
        elems = set()
        for c in recs:
            seen = set()
            work = locals_in(c.args[0])
            while work:
                l = work.pop()
                if l in seen:
                    continue
                seen.add(l)
                for st in f.stmts:
                    if st.lhs_local == l:
                        mt = re.findall(r"\.#(\d+)", st.text())
                        if mt:
                            elems.add(mt[-1])
                        work += locals_in(st.text())
                for c2 in f.calls:
                    if c2.dest_local == l:
                        for a in c2.args:
                            mt = re.findall(r"\.#(\d+)", a)
                            if mt:
                                elems.add(mt[-1])
                            work += locals_in(a)
        return recs, elems

    specs = [
        (r"<impl eval::compiler::expr::ExprCompiled>::mark_definitely_assigned_after$", EXPR,
         [("If", 1, {"0"}), ("LogicalBinOp", 1, {"0"})]),
        (r"<impl eval::compiler::stmt::StmtCompiled>::mark_definitely_assigned_after$",
         r"eval::compiler::stmt::StmtCompiled$", [("If", 1, {"0"}), ("For", 1, {"1"}), ("Return", 0, set())]),
    ]
    for fpat, typat, arms_spec in specs:
        ma = F.find(fpat)
        if len(ma) != 1:
            ctx.bad("C02.R5", "mark_definitely_assigned_after:anchor:" + typat.split("::")[-1].rstrip("$"),
                    "anchor-missing: %s (%d found)" % (fpat, len(ma)))
            continue
        f = ma[0]
        m = match_arms(F, f, typat)
        if not m:
            ctx.bad("C02.R5", "mark_definitely_assigned_after:match:" + f.qpath[-40:], "anchor-missing: match", fn=f)
            continue
        bb, arms, other, allv = m
        tyn = typat.split("::")[-1].rstrip("$")
        for v, maxcalls, allowed in arms_spec:
            recs, elems = arm_marks(f, arms, other, v)
            if recs is None:
                ctx.bad("C02.R5", "mark:%s::%s:arm" % (tyn, v), "anchor-missing: no arm for %s" % v, fn=f)
                continue
            ctx.check(len(recs) == maxcalls and elems <= allowed, "C02.R5", "mark:%s::%s" % (tyn, v),
                      "only the unconditionally evaluated operand (element %s) is marked" % (sorted(allowed) or "none"),
                      "mark_definitely_assigned_after of %s::%s marks %d operand(s) (elements %s), expected %d (%s): an "
                      "assignment inside a conditionally executed part is treated as definite, and later reads "
                      "compile to the unchecked InstrMov" % (tyn, v, len(recs), sorted(elems), maxcalls,
                                                             sorted(allowed)), fn=f)
    cm = F.find(r"<impl eval::compiler::compr::ComprCompiled>::mark_definitely_assigned_after$")
    if len(cm) == 1:
        recs = [c for c in cm[0].calls if re.search(r"mark_definitely_assigned_after$", c.name) and c.bb not in cm[0].cleanup]
        sl = calls_by_name(cm[0], r"ClausesCompiled::split_last$")
        ctx.check(len(recs) == 1 and bool(sl), "C02.R5", "mark:ComprCompiled",
                  "a comprehension marks only the iterable of its outermost clause",
                  "ComprCompiled::mark_definitely_assigned_after marks more than the first clause's iterable", fn=cm[0])
    else:
        ctx.bad("C02.R5", "mark:ComprCompiled:anchor", "anchor-missing: ComprCompiled::mark_definitely_assigned_after")


def r5d_param_count(ctx, F):
    """the number passed to set_param_count is the length of the very collection whose elements get parameter slots"""
    f = F.one(r"eval::compiler::scope::ModuleScopeBuilder::<'f>::collect_defines_in_def$")
    spc = calls_by_name(f, r"scope::ScopeNames::<'f>::set_param_count$")
    nb = calls_by_name(f, r"scope::ModuleScopeData::<'f>::new_binding$")
    lens = [c for c in f.calls if re.search(r"::len$", c.name)]
    its = [c for c in f.calls if re.search(r"IntoIterator>::into_iter$", c.name)]
    if not spc or not nb or not lens or not its:
        ctx.bad("C02.R5", "param_count:anchor", "anchor-missing: set_param_count / new_binding / len / into_iter", fn=f)
        return

    def src(operand):
        out = set()
        for o in origins(f, operand, through_all_args=False):
            out.add((o[0], short_fn(o[1].name) if o[0] == "call" else (o[1] if o[0] == "param" else "")))
        return out
    # the len() whose result reaches set_param_count
    arg_or = origins(f, spc[0].args[-1])
    len_calls = [o[1] for o in arg_or if o[0] == "call" and o[1] in lens]
    # the loop that allocates parameter bindings: the into_iter that dominates new_binding
    loop = [i for i in its if f.dominates(i.bb, nb[0].bb)]
    good = bool(len_calls) and bool(loop)
    if good:
        a = src(len_calls[0].args[0])
        b = src(loop[-1].args[0])
        good = a == b and bool(a)
    ctx.check(good, "C02.R5", "param_count:counts-the-slotted-parameters",
              "set_param_count receives the length of the same collection whose elements are given parameter slots",
              "the parameter count recorded for a def is not the length of the collection whose elements receive "
              "parameter slots (e.g. it counts the `*` / `/` markers): locals below param_count are treated as "
              "definitely assigned parameters by the inliner and the bytecode writer", fn=f, line=spc[0].line)


EQ_GENERIC = r"(Value::<'v>::equals|FrozenValue::equals|ValueLike::equals|FrozenValueTyped::<'v, T>::equals|::equals)$"


def r6_specialised_equality(ctx, F, rule="C02.R6"):
    """`x == <constant>` is compiled to an instruction specialised on the constant's type. The specialisation may
    answer by itself only inside the constant's own Rust type; when the operand is of another type it must ask the
    generic equality, because an equality class can span several Rust types (an int constant equals a float and a big
    int): InstrEqInt falls back to `equals` whenever the operand is not a small int, InstrEqConst always uses it."""
    from kern import outcome_edges, all_paths_pass
    P = r"bc::instr_impl::%s as eval::bc::instr_impl::InstrNoFlowImpl>::run_with_args$"
    f = F.one(P % "InstrEqConstImpl")
    eqs = [c.bb for c in f.calls if c.bb not in f.cleanup and re.search(EQ_GENERIC, c.name)]
    ctx.check(bool(eqs) and f.must_pass_from_entry(eqs, f.returns()), rule, "InstrEqConst:always-generic",
              "every path evaluates the generic equality",
              "InstrEqConst can produce a result without calling the generic `equals`", fn=f)
    f = F.one(P % "InstrEqIntImpl")
    tests = [c for c in f.calls if c.bb not in f.cleanup and re.search(r"unpack_(int_value|i32|inline_int|int)$|downcast_ref", c.name)]
    eqs = [c.bb for c in f.calls if c.bb not in f.cleanup and re.search(EQ_GENERIC, c.name)
           and not re.search(r"cmp::PartialEq", c.name)]
    if not tests:
        ctx.bad(rule, "InstrEqInt:anchor", "anchor-missing: the small-int test of InstrEqInt", fn=f)
        return
    for t in tests:
        edges = outcome_edges(F, f, t, "None")
        starts = [b for (_, b) in edges]
        ctx.check(bool(starts) and bool(eqs) and all_paths_pass(f, starts, eqs), rule, "InstrEqInt:fallback-generic",
                  "when the operand is not a small int the generic equality decides",
                  "InstrEqInt answers without the generic `equals` when the operand is not a small int: "
                  "`x == 1` with x = 1.0 (or a big int) gives a different answer when the constant is visible to the "
                  "compiler than when it is hidden", fn=f, line=t.line)


def r7_type_is_inline_positional(ctx, F):
    """the `lambda x: type(x) == T` inlining replaces a call by a type test on its first positional argument without
    binding arguments, so it is only sound for a def whose single parameter CAN be filled positionally: the
    construction of InlineDefBody::ReturnTypeIs is guarded by a test of DefParamIndices::num_positional (a parameter
    after `*` is keyword-only; `is_s('a')` must fail, inlined or not)"""
    from kern import bool_local_edges
    f = F.one(r"eval::compiler::def_inline::inline_def_body$")
    sites = [st for st in f.stmts if st.kind.endswith("InlineDefBody::ReturnTypeIs") and st.bb not in f.cleanup]
    if not sites:
        ctx.bad("C02.R7", "type-is-inline:anchor", "anchor-missing: construction of InlineDefBody::ReturnTypeIs", fn=f)
        return
    guards = []
    for st in f.stmts:
        if not re.match(r"binop (Eq|Ne|Ge|Gt|Le|Lt)$", st.kind) or st.bb in f.cleanup:
            continue
        seen, work, txt = set(), re.findall(r"_\d+", st.ops[0]), ""
        while work:
            l = work.pop()
            if l in seen:
                continue
            seen.add(l)
            for s2 in f.stmts:
                if s2.lhs_local == l:
                    txt += " " + s2.text()
                    work += re.findall(r"_\d+", s2.text())
        if "DefParamIndices::num_positional}" in txt:
            guards.append(st)
    from kern import conjunction_edges
    for site in sites:
        ok = any(f.edge_dominates(e, site.bb) for g in guards
                 for e in set(bool_local_edges(f, g.lhs, "false")) |
                 conjunction_edges(f, {g.lhs}, set(bool_local_edges(f, g.lhs, "true"))))
        ctx.check(ok, "C02.R7", "type-is-inline:positional-parameter",
                  "ReturnTypeIs is only built under a test of the number of positional parameters",
                  "inline_def_body marks a def as `type(x) == T` inlinable without testing that its parameter can be "
                  "passed positionally (DefParamIndices::num_positional): a call passing a keyword-only parameter "
                  "positionally is replaced by a type test instead of failing", fn=f, line=site.line)


KEEP_ARMS = ("Return", "Assign", "AssignModify", "Break", "Continue", "PossibleGc")


def r9_statements_kept(ctx, F, rule="C02.R9"):
    """the statement optimiser (run again on freeze with module constants inlined) may drop an expression statement, an
    `if` or a `for` - through StmtsCompiled::expr / if_stmt / for_stmt, which ask the purity analysis - but an assignment,
    an augmented assignment (`x += []` must still fail on a frozen list), a return, break or continue always yields
    exactly one statement"""
    from kern import match_arms
    f = F.one(r"eval::compiler::stmt::<impl eval::compiler::span::IrSpanned<eval::compiler::stmt::StmtCompiled>>::optimize$")
    m = match_arms(F, f, r"stmt::StmtCompiled$")
    if not m:
        ctx.bad(rule, "stmt-optimize:anchor", "anchor-missing: match on StmtCompiled in optimize", fn=f)
        return
    bb, arms, other, allv = m
    drop = {c.bb for c in f.calls if c.bb not in f.cleanup and re.search(
        r"StmtsCompiled::(empty|expr|if_stmt|for_stmt|default)$|Default>::default$", c.name) and "StmtsCompiled" in c.name + c.full}
    one = {c.bb for c in f.calls if c.bb not in f.cleanup and re.search(r"StmtsCompiled::one$", c.name)}
    rets = set(f.returns())
    for a in KEEP_ARMS:
        if a not in arms:
            ctx.bad(rule, "stmt-kept:%s:anchor" % a, "anchor-missing: arm %s of StmtCompiled in optimize" % a, fn=f)
            continue
        region = f.reach([arms[a]])
        ctx.check(not (region & drop) and not (rets & f.reach([arms[a]], cut_blocks=one)), rule, "stmt-kept:" + a,
                  "the %s arm always produces one statement" % a,
                  "StmtCompiled::optimize can drop a `%s` statement (an empty StmtsCompiled is reachable from its arm): "
                  "the statement's effect - including its failure, e.g. `x += []` on a frozen list - disappears once "
                  "the module is frozen" % a, fn=f)


def r10_optimize_keeps_components(ctx, F, rule="C02.R10"):
    """re-optimising a statement rebuilds it from its parts: every field of every StmtCompiled variant is read by
    `optimize` (a field matched with `_` and rebuilt from a default - e.g. the annotation of `x: T = e` replaced by
    None - silently drops part of the program after the module is frozen)"""
    f = F.one(r"eval::compiler::stmt::<impl eval::compiler::span::IrSpanned<eval::compiler::stmt::StmtCompiled>>::optimize$")
    seen = set()
    for g in [f] + list(F.closures_of(f)):
        for st in g.stmts:
            for m in re.finditer(r"as<(\w+)>\.\{[^}]*?::StmtCompiled::(\w+)\}", st.text()):
                seen.add(m.groups())
        for c in g.calls:
            for a in c.args:
                for m in re.finditer(r"as<(\w+)>\.\{[^}]*?::StmtCompiled::(\w+)\}", a):
                    seen.add(m.groups())
    adt = [x for x in F.adts.values() if x.qpath.endswith("compiler::stmt::StmtCompiled")]
    if len(adt) != 1:
        ctx.bad(rule, "stmt-components:anchor", "anchor-missing: enum StmtCompiled")
        return
    allf = sorted({(fl["variant"], fl["name"]) for fl in adt[0].fields})
    for v, n in allf:
        ctx.check((v, n) in seen, rule, "stmt-component-read:%s.%s" % (v, n), "the field is read when the statement is rebuilt",
                  "StmtCompiled::optimize never reads field %s of `%s`: that component is dropped (or replaced by a "
                  "default) in the bytecode regenerated when the module is frozen - e.g. the type of an annotated "
                  "assignment is no longer checked" % (n, v), fn=f)
    ctx.floor(rule, "fields of StmtCompiled variants", len(allf), 10)


def r11_no_inlining_of_annotated_defs(ctx, F, rule="C02.R11"):
    """a def with a parameter or return annotation is never marked inlinable: an inlined call skips the callee's frame,
    and with it the runtime checks of those annotations. Either the call of inline_def_body in Compiler::function is
    made only when `has_types` is false, or - if the flag is passed down - every InlineDefBody built inside is under
    the flag's false edge."""
    from kern import bool_local_edges
    fn = F.one(r"eval::compiler::def::<impl eval::compiler::Compiler<'_, '_, '_, '_>>::function$")
    calls_ = [c for c in fn.calls if c.bb not in fn.cleanup and re.search(r"def_inline::inline_def_body$", c.name)]
    if not calls_:
        ctx.bad(rule, "annotated-def-inline:anchor", "anchor-missing: call of inline_def_body in Compiler::function", fn=fn)
        return
    # bool locals that carry "has type annotations" (assigned by ParametersCompiled::has_types, possibly or-ed)
    H = {c.dest_local for c in fn.calls if re.search(r"ParametersCompiled::<T>::has_types$", c.name)}
    false_edges = set()
    for h in H:
        false_edges |= set(bool_local_edges(fn, h, "false"))
    inl = F.one(r"eval::compiler::def_inline::inline_def_body$")
    for c in calls_:
        guarded_outside = any(fn.edge_dominates(e, c.bb) for e in false_edges)
        ok = guarded_outside
        if not ok:
            # the flag may be passed down: find the bool parameter and require every construction to be under it
            passed = [i for i, a in enumerate(c.args) if any(x in H or True for x in re.findall(r"_\d+", a))
                      and fn.locals.get(re.findall(r"_\d+", a)[0] if re.findall(r"_\d+", a) else "", "") == "bool"]
            sites = [st for st in inl.stmts if re.search(r"InlineDefBody::\w+$", st.kind) and st.kind.startswith("agg adt")
                     and st.bb not in inl.cleanup]
            bools = [l for l in ("_1", "_2", "_3", "_4") if inl.locals.get(l) == "bool"]
            inner = set()
            for b in bools:
                inner |= set(bool_local_edges(inl, b, "false"))
            ok = bool(passed) and bool(sites) and all(any(inl.edge_dominates(e, st.bb) for e in inner) for st in sites)
        ctx.check(ok, rule, "annotated-def-not-inlinable",
                  "an inline body is computed only for defs without type annotations",
                  "a def that declares parameter or return types can be marked inlinable (inline_def_body is reached, or "
                  "builds an InlineDefBody, without `has_types` being false): calls compiled against the frozen def are "
                  "replaced by the body / a type test and the annotations are never checked", fn=fn, line=c.line)


def r12_format_specialisation_operand(ctx, F):
    """`"a%sb" % r` and `"a{}b".format(x)` with a constant format string are compiled to one-argument instructions whose
    runtime helper re-interprets the operand exactly like the generic operation (a tuple operand of `%` is the argument
    list). The specialisation is therefore sound only if it hands the helper the SAME operand expression: the operand
    of percent_s_one / format_one is the function's own operand parameter, not a piece taken out of it
    (`"%s" % (x,)` must not become `"%s" % x`)."""
    n = 0
    for fpat, callee, argi in ((r"eval::compiler::expr::ExprCompiled::percent$", r"ExprCompiled::percent_s_one$", 1),):
        f = F.one(fpat)
        for c in f.calls:
            if c.bb in f.cleanup or not re.search(callee, c.name) or len(c.args) <= argi:
                continue
            n += 1
            os_ = origins(f, c.args[argi], pass_calls=None)
            ok = any(o[0] == "param" for o in os_) and not any(o[0] in ("call", "agg") for o in os_)
            ctx.check(ok, "C02.R12", "format-specialisation-operand:" + short_fn(f.qpath),
                      "the specialised instruction receives the operand expression unchanged",
                      "`%s` passes a rewritten operand (%s) to the one-argument specialisation: the helper interprets a "
                      "tuple operand as the argument list, so e.g. `\"%%s\" %% (x,)` with a tuple x formats differently "
                      "from the same program with the format string hidden in a variable"
                      % (short_fn(f.qpath), sorted(short_fn(o[1].name) for o in os_ if o[0] == "call") or "built here"),
                      fn=f, line=c.line)
    ctx.floor("C02.R12", "one-argument format specialisations", n, 1)


def r13_format_conversions_agree(ctx, F):
    """the one-argument specialisations convert a non-string operand exactly like the general operation: `{}` is str()
    (dot_format::format uses collect_str for the default conversion), `%s` of a non-string is repr() (interpolation::
    percent uses collect_repr). str() and repr() differ for some non-string types (bytes), so a specialisation using the
    other one changes the output when the format string becomes visible to the compiler."""
    def convs(f):
        out = set()
        for g in [f] + list(F.closures_of(f)):
            for c in g.calls:
                m = re.search(r"::(collect_str|collect_repr)$", c.name)
                if m and c.bb not in g.cleanup:
                    out.add(m.group(1))
        return out
    fo = F.one(r"values::types::string::dot_format::format_one$")
    ps = F.one(r"values::types::string::interpolation::percent_s_one$")
    ps_convs = convs(ps)
    for c in ps.calls:
        g = F.fns.get(c.callee_uid()) if not c.indirect else None
        if g is not None and re.search(r"string::(dot_format|interpolation)::", g.qpath):
            ps_convs |= convs(g)
    ctx.check(convs(fo) == {"collect_str"}, "C02.R13", "format_one-uses-str",
              "`{}` specialisation converts with collect_str, like the general format",
              "dot_format::format_one converts a non-string argument with %s: the general `{}` conversion is str(), so "
              "`\"{}\".format(b\"abc\")` differs between the specialised and the general path" % sorted(convs(fo)), fn=fo)
    ctx.check(ps_convs == {"collect_repr"}, "C02.R13", "percent_s_one-uses-repr",
              "`%s` specialisation converts a non-string with collect_repr, like the general `%`",
              "interpolation::percent_s_one converts a non-string argument with %s: the general `%%s` uses repr() for "
              "non-strings" % sorted(ps_convs), fn=ps)


def run(ctx):
    F = ctx.facts("core")
    r6_specialised_equality(ctx, F)
    r13_format_conversions_agree(ctx, F)
    r12_format_specialisation_operand(ctx, F)
    r11_no_inlining_of_annotated_defs(ctx, F)
    r10_optimize_keeps_components(ctx, F)
    r9_statements_kept(ctx, F)
    r7_type_is_inline_positional(ctx, F)
    # the re-optimisation on freeze uses the declaring module of each def (shared with C04.R1)
    from rules.C04 import post_freeze_declaring_module
    post_freeze_declaring_module(ctx, F, rule="C02.R8")
    r1_speculative(ctx, F)
    r2_purity(ctx, F)
    r3_folds(ctx, F)
    r4_assign_count(ctx, F)
    r5_definitely_assigned(ctx, F)
    r5d_param_count(ctx, F)
