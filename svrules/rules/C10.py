"""C10 - integer arithmetic is exact at every magnitude (structural clauses)."""
import re

from kern import all_aggregates, callers, origins, outcome_edges, short_fn, top_fn

DESCRIPTION = ("C10 clauses decided: R1 canonical representation - StarlarkInt::Big is built only where the value failed "
               "to fit the inline representation (Err edge of InlineInt::try_from) or copied; R2 inline values come "
               "only from checked operations - InlineInt constructions and StarlarkInt::Small sources are an exact "
               "inventory, no wrapping/overflowing/unchecked/saturating integer intrinsic in the numeric modules; "
               "R3 narrowing integer casts on value-derived operands are inventoried.")
NOT_DECIDED = ("that each checked fast path and bigint fallback computes the right number, floor semantics, shift-width "
               "thresholds, string conversion: value-level")

NUM_FILES = r"starlark/src/values/types/(int|bigint\.rs|num|float)"

SMALL_OK = re.compile(r"^(InlineInt::checked_\w+|InlineInt as (BitAnd::bitand|BitOr::bitor|BitXor::bitxor|Not::not|Clone::clone|"
                      r"TryFrom::try_from)|TryFrom::try_from|StarlarkIntRef::percent_small|Result::unwrap_or|param|const)$")

INLINE_CONS = {
    "InlineInt::new_unchecked": "unsafe constructor; callers inventoried below",
    "InlineInt::try_from_impl": "after the range test",
    "InlineInt as BitAnd::bitand": "closed on the 31/32-bit range",
    "InlineInt as BitOr::bitor": "closed",
    "InlineInt as BitXor::bitxor": "closed",
    "InlineInt as Not::not": "closed",
    "InlineInt as Rem::rem": "|a % b| < |b|",
}


def r1_canonical(ctx, F):
    bigs = all_aggregates(F, r"int_or_big::StarlarkInt::Big$")
    ctx.floor("C10.R1", "StarlarkInt::Big constructions", len(bigs), 4, inventory=True)
    for f, st in bigs:
        t = top_fn(F, f)
        s = short_fn(t.qpath)
        if re.search(r"Clone::clone$|StarlarkIntRef::to_owned$", s):
            ctx.ok("C10.R1", "Big<-" + s, "copy of an existing Big")
            continue
        tf = [c for c in f.calls if re.search(r"TryFrom(<.*>)?>?::try_from$", c.name)
              and c.bb not in f.cleanup]
        good = False
        for c in tf:
            ee = outcome_edges(F, f, c, "Err")
            if ee and st.bb not in f.reach(0, cut_edges=ee):
                good = True
        ctx.check(good, "C10.R1", "Big<-" + s,
                  "a heap big integer is created only on the Err edge of InlineInt::try_from (value does not fit inline)",
                  "`%s` builds StarlarkInt::Big for a value that was not shown not to fit the inline representation: "
                  "the same number gets two representations (equality/hash/`is` on ints break)" % t.qpath, fn=f,
                  line=st.line)
    un = callers(F, r"bigint::StarlarkBigInt::unchecked_new$")
    ctx.floor("C10.R1", "StarlarkBigInt::unchecked_new callers", len(un), 2)
    for f, c in un:
        s = short_fn(top_fn(F, f).qpath)
        ctx.check(bool(re.search(r"StarlarkInt::from_impl$|StarlarkInt as From::from$", s)), "C10.R1",
                  "unchecked_new<-" + s, "called from a canonicalising constructor",
                  "StarlarkBigInt::unchecked_new (no range check) called from `%s`" % s, fn=f, line=c.line)


def r2_checked(ctx, F):
    cons = all_aggregates(F, r"inline_int::InlineInt::InlineInt$")
    ctx.floor("C10.R2", "InlineInt constructions", len(cons), 7, inventory=True)
    for f, st in cons:
        s = short_fn(top_fn(F, f).qpath)
        ctx.check(s in INLINE_CONS, "C10.R2", "InlineInt<-" + s, "reviewed: " + INLINE_CONS.get(s, ""),
                  "`%s` constructs an InlineInt directly (bypassing the range check of try_from)" % s, fn=f,
                  line=st.line)
    nu = callers(F, r"inline_int::InlineInt::new_unchecked$")
    for f, c in nu:
        s = short_fn(top_fn(F, f).qpath)
        ctx.check(s == "RawPointer::unpack_int_unchecked", "C10.R2", "new_unchecked<-" + s,
                  "unpacking an already tagged int pointer", "InlineInt::new_unchecked called from `%s`" % s, fn=f,
                  line=c.line)
    # try_from_impl: the construction is dominated by the range test (both comparisons)
    tfi = F.one(r"inline_int::InlineInt::try_from_impl$")
    from kern import forward_locals, switch_info
    cmps = [st for st in tfi.stmts if re.match(r"binop (Ge|Le|Lt|Gt)", st.kind)]
    agg = [st for st in tfi.stmts if st.kind.endswith("InlineInt::InlineInt")]
    good = False
    if agg and len(cmps) >= 2:
        taint = forward_locals(tfi, {c.lhs_local for c in cmps}, through_all_calls=True)
        for b in tfi.terms:
            info = switch_info(tfi, b)
            if info and info["kind"] == "bool" and info["place"] in taint:
                te = {(b, info["otherwise"])}
                if all(a.bb not in tfi.reach(0, cut_edges=te) for a in agg):
                    good = True
    ctx.check(good, "C10.R2", "try_from_impl:range-test",
              "the construction lies on the true edge of a branch computed from both range comparisons",
              "InlineInt::try_from_impl no longer tests both bounds before constructing", fn=tfi)
    # no wrapping/unchecked intrinsics in the numeric modules
    n = 0
    pos = 0
    for f in F.fns.values():
        if f.crate != "starlark":
            continue
        for c in f.calls:
            # checked_shl only checks the shift *amount* and silently drops the bits shifted out on the left
            if re.search(r"core::num::<impl \w+>::((wrapping_|overflowing_|unchecked_|saturating_)\w+|checked_shl)$",
                         c.name):
                pos += 1
                if re.search(NUM_FILES, f.span):
                    n += 1
                    ctx.bad("C10.R2", "intrinsic:%s:%s" % (short_fn(f.qpath), c.name.split("::")[-1]),
                            "`%s` in the integer implementation silently wraps/saturates: results must be exact or "
                            "fall back to big integers" % c.name, fn=f, line=c.line)
    ctx.check(pos >= 1, "C10.R2", "intrinsic:positive-control",
              "the matcher still recognises wrapping/unchecked intrinsics elsewhere in the crate (%d sites)" % pos,
              "positive control lost: no wrapping/unchecked intrinsic found anywhere (matcher broken?)")
    if n == 0:
        ctx.ok("C10.R2", "intrinsic:none-in-numeric-modules")
    # every StarlarkInt::Small payload comes from a checked op / closed op / conversion / constant
    smalls = all_aggregates(F, r"int_or_big::StarlarkInt::Small$")
    ctx.floor("C10.R2", "StarlarkInt::Small constructions", len(smalls), 26, inventory=True)
    pc = re.compile(r"(Try>::branch$|::unwrap$|::expect$|::ok_or_else$|FromResidual)")
    for f, st in smalls:
        srcs = sorted({(x[0] if x[0] != "call" else short_fn(x[1].name)) for x in origins(f, st.ops[0], pass_calls=pc)})
        bad = [s for s in srcs if not SMALL_OK.match(s)]
        key = "Small<-%s:%s" % (short_fn(top_fn(F, f).qpath), "+".join(srcs))
        ctx.check(not bad, "C10.R2", key, "payload comes from a checked/closed operation, a conversion or a constant",
                  "StarlarkInt::Small payload in `%s` comes from %s, which is not a checked operation: an overflowed "
                  "value could be stored inline" % (short_fn(f.qpath), bad), fn=f, line=st.line)


def r3_narrowing(ctx, F):
    """IntToInt casts to a narrower/other-signed type inside the numeric modules"""
    order = {"i8": 8, "u8": 8, "i16": 16, "u16": 16, "i32": 32, "u32": 32, "i64": 64, "u64": 64, "isize": 64,
             "usize": 64, "i128": 128, "u128": 128}
    TABLE = {
        # function short name -> reason
    }
    n = 0
    for f in F.fns.values():
        if f.crate != "starlark" or not re.search(NUM_FILES, f.span):
            continue
        for st in f.stmts:
            if not st.kind.startswith("cast IntToInt"):
                continue
            m = re.match(r"(\w+) -> (\w+)$", st.ops[-1])
            if not m or m.group(1) not in order or m.group(2) not in order:
                continue
            a, b = m.group(1), m.group(2)
            narrowing = order[b] < order[a] or (order[b] == order[a] and a[0] != b[0])
            if not narrowing:
                continue
            n += 1
            ctx.info.setdefault("narrowing_casts", []).append("%s: %s -> %s" % (short_fn(f.qpath), a, b))
    ctx.info["narrowing_cast_count"] = n
    # float -> int casts saturate silently: in the conversion functions each must be validated by a round trip
    from kern import forward_locals
    n_f = 0
    for f in F.fns.values():
        if f.crate != "starlark" or not re.search(r"starlark/src/values/types/(int|num)/", f.span):
            continue
        for st in f.stmts:
            if st.kind.startswith("cast FloatToInt"):
                n_f += 1
                taint = forward_locals(f, {st.lhs_local}, through_all_calls=True)
                back = [s2 for s2 in f.stmts if s2.kind.startswith("cast IntToFloat") and s2.lhs_local in taint] + [
                    c for c in f.calls if re.search(r"::to_f64$", c.name) and c.dest_local in taint]
                cmp_ = [s2 for s2 in f.stmts if re.match(r"binop (Eq|Ne)", s2.kind) and "f64" in s2.text()
                        and any(x in taint for x in re.findall(r"_\d+", s2.text()))]
                ctx.check(bool(back) and bool(cmp_), "C10.R3", "float-to-int:" + short_fn(f.qpath),
                          "the saturating float->int cast is validated by converting back and comparing",
                          "`%s` casts a float to an integer without the round-trip comparison (the cast saturates "
                          "silently)" % short_fn(f.qpath), fn=f, line=st.line)
    ctx.floor("C10.R3", "float->int casts in int/num modules", n_f, 2, inventory=True)


# R4 reviewed wide float<->int casts: (function, cast) -> reason
WIDE_CAST_OK = {
    "float::write_scientific:IntToFloat usize -> f64": "formatting: WRITE_PRECISION (a small constant) as the exponent of 10",
    "float::write_scientific:FloatToInt f64 -> u64": "formatting: the fractional part scaled by 10^WRITE_PRECISION "
                                                     "(below 10^7), printed as digits",
}
NARROW_INTS = ("i8", "i16", "i32", "u8", "u16", "u32")


def r4_float_int_casts(ctx, F):
    """`as` casts between floats and integers in the number code are exact by width: an integer is cast to f64 only from
    a type of at most 32 bits (every such value is representable), and a float is cast to an integer of at most 32 bits
    so that the round-trip test `i as f64 == f` that follows is itself exact. A cast through i64/u64/usize saturates
    and rounds (2^63 as i64 as f64 == 2^63), so an "exact" conversion built on it is off by one at the edge."""
    n = 0
    for f in F.fns.values():
        if f.crate != "starlark" or not re.search(r"src/values/types/(int|num|float|bigint)|src/values/num|src/stdlib/", f.span):
            continue
        for st in f.stmts:
            m = re.match(r"cast (FloatToInt|IntToFloat)$", st.kind)
            if not m or st.bb in f.cleanup or len(st.ops) < 2:
                continue
            n += 1
            src, dst = [x.strip() for x in st.ops[1].split(" -> ")]
            narrow = (src if m.group(1) == "IntToFloat" else dst) in NARROW_INTS
            who = short_fn(top_fn(F, f).qpath)
            from kern import reviewed
            key = (who, "%s %s -> %s" % (m.group(1), src, dst))
            why = None if narrow else reviewed(F, WIDE_CAST_OK, key[0], key[1])
            ctx.check(narrow or why is not None, "C10.R4", "float-int-cast:%s:%s" % key,
                      "exact by width" if narrow else "reviewed: " + (why or ""),
                      "`%s` casts %s to %s: the cast saturates / rounds beyond 2^53, so a conversion or comparison built "
                      "on it is not exact for large operands (e.g. int(float(1 << 63)) off by one)" % (who, src, dst),
                      fn=f, line=st.line)
    ctx.floor("C10.R4", "float<->int casts in the number code", n, 9, inventory=True)


def r5_small_remainder_guarded(ctx, F, rule="C10.R5"):
    """`%` on the 32-bit inline representation panics for (MIN, -1) ("attempt to calculate the remainder with
    overflow") in every build profile. Each use of `InlineInt % InlineInt` is therefore reached only after a test that
    rules that pair out: either an explicit comparison with MIN / -1, or a sign test (the pair has equal signs, so a
    remainder taken only when the signs differ never sees it)."""
    from kern import bool_call_edges, bool_local_edges, origins
    n = 0
    for f in F.fns.values():
        if f.crate != "starlark":
            continue
        rems = [c for c in f.calls if c.bb not in f.cleanup and re.search(
            r"<values::types::int::inline_int::InlineInt as std::ops::(Rem|Div)>::(rem|div)$", c.name)]
        if not rems or re.search(r"inline_int::InlineInt", f.qpath):
            continue
        guards = set()
        for st in f.stmts:
            if not re.match(r"binop (Lt|Le|Gt|Ge|Eq|Ne)$", st.kind) or st.bb in f.cleanup:
                continue
            srcs = set()
            for op in st.ops[0].split(" , "):
                for o in origins(f, op, pass_calls=None):
                    if o[0] == "call":
                        srcs.add(o[1].name)
            if any(re.search(r"::signum(_big)?$", x) for x in srcs):
                guards |= set(bool_local_edges(f, st.lhs, "true")) | set(bool_local_edges(f, st.lhs, "false"))
        for c in f.calls:
            if c.bb in f.cleanup or not re.search(r"PartialEq<i32>>::(eq|ne)$", c.name):
                continue
            # a comparison of the DIVIDEND (first parameter) with a constant: the divisor-is-zero test does not count,
            # the constants themselves are promoted and not visible in the facts
            if any(o == ("param", "_1") for o in origins(f, c.args[0], pass_calls=None)):
                guards |= set(bool_call_edges(F, f, c, "true")) | set(bool_call_edges(F, f, c, "false"))
        for c in rems:
            n += 1
            # the guarding test has been evaluated on every path to the operation (for `!(a == MIN && b == -1)` no
            # single edge dominates, the test block does)
            ctx.check(any(f.dominates(e[0], c.bb) and e[0] != c.bb for e in guards), rule,
                      "small-%s-guarded:%s" % (c.name.split("::")[-1], short_fn(f.qpath)),
                      "the operation is reached only after a sign test or an explicit MIN / -1 test",
                      "`%s` evaluates `InlineInt %s InlineInt` without first ruling out (MIN, -1): that pair panics "
                      "(remainder/division overflow) instead of promoting to a big integer"
                      % (short_fn(f.qpath), "%" if c.name.endswith("rem") else "/"), fn=f, line=c.line)
    ctx.floor(rule, "uses of the panicking small-int % and /", n, 2)


def run(ctx):
    F = ctx.facts("core")
    r4_float_int_casts(ctx, F)
    r5_small_remainder_guarded(ctx, F)
    r1_canonical(ctx, F)
    r2_checked(ctx, F)
    r3_narrowing(ctx, F)
