"""C09 - equality, hashing and ordering are coherent (hashing-coherence clauses)."""
import re

from kern import CallGraph, calls_by_name, callers, locals_in, origins, short_fn, top_fn

DESCRIPTION = ("C09 clauses decided: R1 the Rust types inside one equality class (small int, big int, float) override "
               "the same hash entry points and all of them funnel through NumRef::get_hash_64 / NumRef::get_hash; "
               "strings hash through one cached hash; R2 every Hashed::new_unchecked(hash, key) pairs a hash and a key "
               "with a reviewed provenance pair; R3 frozen/unfrozen siblings override the same subset of "
               "{write_hash, get_hash, equals, compare}.")
NOT_DECIDED = "reflexivity/symmetry/transitivity of equality, ordering totality, sort stability: value-level"

SV = r"values::traits::StarlarkValue<'v>$"
NUM_CLASS = {
    "PointerI32": r"values::types::int::pointer_i32::PointerI32$",
    "StarlarkBigInt": r"values::types::bigint::StarlarkBigInt$",
    "StarlarkFloat": r"values::types::float::float::StarlarkFloat$",
}

# C09.R2 reviewed provenance pairs (hash source, key source) -> reason
PAIRS = {
    ("same", "same"): "hash and key come from the same Hashed / the same stored entry",
    ("Hashed::hash", "FreezeBranded::freeze"): "freeze must not change the hash (checked by R3 for sibling types)",
    ("Hashed::hash", "Freezer::freeze"): "freeze must not change the hash (R3)",
    ("Hashed::hash", "FrozenValue::to_value"): "same value, unfrozen view",
    ("Hashed::hash", "to_string_value"): "same string value, other static type",
    ("Hashed::hash", "ValueTyped::new"): "same value re-typed as string value",
    ("Hashed::hash", "Arguments::unpack_kwargs_key_as_value"): "hash of the kwargs key computed from the same string value",
    ("Hashed::hash", "agg"): "borrowed str of the same Hashed<&str> wrapped in the lookup key type",
    ("StarlarkStr::get_hash", "self"): "cached hash of the string itself",
    ("StarlarkStr::get_hash", "as_str"): "hash of the string's own text",
    ("StarlarkStr::get_hash", "to_value"): "same string as Value",
    ("StarlarkStr::get_hash", "FrozenValueTyped::to_frozen_value"): "same string as FrozenValue",
    ("StarlarkStr::get_hash+Value::get_hash", "self"): "Value::get_hashed: string fast path or vtable get_hash of self",
    ("small_hash", "as_str"): "Symbol/ArgSymbol caches the string hash of its own text",
    ("small_hash", "Zip::next"): "argument names are zipped with their values: the symbol's hash is the hash of that name",
    ("self", "as_str"): "Symbol::as_str_hashed: the stored small_hash of the symbol's own text",
    ("StarlarkHashValue::new", "self"): "Hashed::new computes the hash from the key",
    ("StarlarkHashValue::new_unchecked", "self"): "SmallSet::hashed: promoted from the mixed hash of the same key",
    ("deserialize", "deserialize"): "hash and key are read back from one serialized entry",
}


def sv_impls(F, adt_re):
    return [i for i in F.impls if re.search(SV, i["trait"]) and i["crate"] == "starlark"
            and re.search(adt_re, "starlark::" + i["selfadt"])]


def method_body(F, impl, name):
    c = [f for f in F.fns.values() if f.crate == impl["crate"] and f.trait == impl["trait"]
         and f.selfty == impl["selfty"] and f.name == name and f.kind != "Closure"]
    return c[0] if len(c) == 1 else None


def r1_numeric(ctx, F):
    over = {}
    for name, pat in NUM_CLASS.items():
        im = sv_impls(F, pat)
        if len(im) != 1:
            ctx.bad("C09.R1", "impl:" + name, "anchor-missing: StarlarkValue impl for %s (%d found)" % (name, len(im)))
            continue
        over[name] = (im[0], {m for m in im[0]["items"] if m in ("get_hash", "write_hash")})
    sets = {n: s for n, (i, s) in over.items()}
    ref = {"get_hash", "write_hash"}
    for n, s_ in sets.items():
        ctx.check(s_ == ref, "C09.R1", "hash-entry-points:" + n,
                  "%s overrides both get_hash and write_hash like the rest of its equality class" % n,
                  "%s overrides %s while the other numeric representations override {get_hash, write_hash}: equal "
                  "numbers (e.g. 1<<31 and 2147483648.0) hash differently depending on representation and on whether "
                  "they are hashed as a key (get_hash) or inside a container (write_hash)" % (n, sorted(s_)))
    for n, (im, s_) in over.items():
        for m, funnel in (("write_hash", r"num::value::NumRef::<'v>::get_hash_64$|num::value::NumRef::get_hash_64$"),
                          ("get_hash", r"num::value::NumRef::<'v>::get_hash$|num::value::NumRef::get_hash$")):
            if m not in s_:
                continue
            f = method_body(F, im, m)
            if f is None:
                ctx.bad("C09.R1", "body:%s::%s" % (n, m), "anchor-missing: body of %s::%s" % (n, m))
                continue
            cs = [c for c in f.calls if re.search(funnel, c.name) and c.bb not in f.cleanup]
            good = bool(cs) and f.must_pass_from_entry([c.bb for c in cs], f.returns())
            ctx.check(good, "C09.R1", "funnel:%s::%s" % (n, m),
                      "%s::%s computes its hash through %s on every path" % (n, m, funnel.split("::")[-1].rstrip("$")),
                      "%s::%s no longer goes through the shared numeric hash (%s): a number equal to it in another "
                      "representation hashes differently" % (n, m, funnel.split("|")[0]), fn=f)
            if m == "write_hash":
                # the only thing fed to the hasher is that hash, as one u64
                feeds = [c for c in f.calls if re.search(r"Hasher>::write_\w+$|hash::Hash( for \w+)?>::hash$|StarlarkHasher.*::write_\w+$",
                                                         c.name) and c.bb not in f.cleanup]
                good = bool(feeds) and all(re.search(r"write_u64$|Hash for u64>::hash$", c.name) for c in feeds)
                if good:
                    for c in feeds:
                        src = c.args[1] if re.search(r"write_u64$", c.name) else c.args[0]
                        os_ = origins(f, src)
                        good = good and any(o[0] == "call" and o[1] in cs for o in os_)
                ctx.check(good, "C09.R1", "feeds:%s::write_hash" % n,
                          "the hasher is fed exactly the u64 returned by get_hash_64",
                          "%s::write_hash feeds the hasher something else than the shared u64 numeric hash" % n, fn=f)
    # strings: one cached hash
    gh = F.one(r"values::types::string::str_type::StarlarkStr::get_hash$")
    ctx.ok("C09.R1", "string:get_hash-present", "StarlarkStr::get_hash is the single string hash entry")
    im = sv_impls(F, r"values::types::string::str_type::StarlarkStr$")
    if im:
        f = method_body(F, im[0], "write_hash")
        if f is not None:
            feeds = [c for c in f.calls if c.bb not in f.cleanup and re.search(r"Hash>::hash$|write_\w+$", c.name)]
            ctx.check(bool(feeds), "C09.R1", "string:write_hash-feeds", "StarlarkStr::write_hash feeds the hasher",
                      "StarlarkStr::write_hash feeds nothing", fn=f)
    # ValueLike::get_hashed: string fast path uses the string's own hash, everything else the vtable get_hash
    vl = F.one(r"starlark::values::layout::value::ValueLike::get_hashed$")
    ctx.check(bool(calls_by_name(vl, r"StarlarkStr::get_hash$")) and bool(calls_by_name(vl, r"value::Value::<'v>::get_hash$")),
              "C09.R1", "get_hashed:two-sources", "get_hashed uses StarlarkStr::get_hash or Value::get_hash",
              "ValueLike::get_hashed changed its hash sources", fn=vl)


def _src_kind(f, operand, self_locals):
    kinds = set()
    locs = set()
    for o in origins(f, operand, through_all_args=False):
        if o[0] == "call":
            nm = short_fn(o[1].name)
            locs |= {x for a in o[1].args[:1] for x in locals_in(a)}
            if re.search(r"deserialize", nm):
                kinds.add("deserialize")
            elif re.search(r"Zip as Iterator::next|Zip.*::next", nm):
                kinds.add("Zip::next")
            elif re.search(r"to_string_value", nm):
                kinds.add("to_string_value")
            elif re.search(r"small_hash$", nm):
                kinds.add("small_hash")
            elif re.search(r"as_str$", nm):
                kinds.add("as_str")
            elif re.search(r"::to_value$", nm) and "Frozen" not in nm:
                kinds.add("to_value")
            elif re.search(r"get_unchecked(_mut)?$|::remove$|::pop$", nm):
                kinds.add("entry:" + nm)
            else:
                kinds.add(nm)
        elif o[0] == "param":
            kinds.add("self" if o[1] == "_1" else "param")
            locs.add(o[1])
        else:
            kinds.add(o[0])
    return "+".join(sorted(kinds)), locs


def r2_unchecked(ctx, F):
    sites = callers(F, r"starlark_map::hashed::Hashed::<K>::new_unchecked$")
    ctx.floor("C09.R2", "Hashed::new_unchecked call sites", len(sites), 37, inventory=True)
    for f, c in sites:
        t = top_fn(F, f)
        hk, hl = _src_kind(f, c.args[0], None)
        kk, kl = _src_kind(f, c.args[1], None)
        if hk == kk and (hk.startswith("entry:") or hk in ("self", "param")):
            pair = ("same", "same")
        elif hk == "param" and kk == "self" or hk == "self" and kk == "param":
            pair = (hk, kk)
        else:
            pair = (hk, kk)
        pair = {("self", "self"): ("same", "same"), ("param", "param"): ("same", "same")}.get(pair, pair)
        reason = PAIRS.get(pair)
        key = "%s:%s|%s" % (short_fn(t.qpath), pair[0], pair[1])
        ctx.check(reason is not None, "C09.R2", key, "reviewed pairing: " + (reason or ""),
                  "Hashed::new_unchecked pairs a hash from `%s` with a key from `%s`: this provenance pair is not "
                  "reviewed; if the hash is not the key's hash, lookups with an equal key miss" % pair, fn=f,
                  line=c.line)


def r3_siblings(ctx, F):
    fz = [i for i in F.impls if re.search(r"values::freeze_branded::FreezeBranded$", i["trait"])
          and i["crate"] == "starlark" and i["selfadt"] != "-"]
    svs = {}
    for i in F.impls:
        if re.search(SV, i["trait"]) and i["crate"] == "starlark" and i["selfadt"] != "-":
            svs.setdefault(i["selfadt"], []).append(i)
    n = 0
    for i in fz:
        if i["selfadt"] not in svs:
            continue
        # the frozen sibling: a StarlarkValue impl on another ADT whose name is Frozen<Name> in the same module
        mod, name = i["selfadt"].rsplit("::", 1)
        sib = mod + "::Frozen" + name
        for cand in (sib,):
            if cand in svs:
                n += 1
                a = {m for im in svs[i["selfadt"]] for m in im["items"] if m in ("write_hash", "get_hash", "equals", "compare")}
                b = {m for im in svs[cand] for m in im["items"] if m in ("write_hash", "get_hash", "equals", "compare")}
                ctx.check(a == b, "C09.R3", "siblings:%s" % name,
                          "frozen and unfrozen representation override the same hash/equality entry points",
                          "`%s` overrides %s but its frozen sibling `%s` overrides %s: freezing changes hashing or "
                          "equality of the value" % (i["selfadt"], sorted(a), cand, sorted(b)))
    # generic siblings (one impl for both representations) are coherent by construction
    gen = [a for a, ims in svs.items() if any(re.search(r"<(T|V)\b", im["selfty"]) for im in ims)]
    ctx.info["generic_sibling_impls"] = len(gen)
    ctx.ok("C09.R3", "generic-impls", "%d value types share one generic impl between frozen and unfrozen forms" % len(gen))
    ctx.info["distinct_sibling_pairs"] = n


def r4_slices(ctx, F):
    """sequence equality compares lengths before zipping (zip truncates silently)"""
    from rules.C16 import zip_guarded
    f = F.one(r"starlark::values::comparison::equals_slice$")
    zs = [c for c in f.calls if re.search(r"Iterator::zip$|iter::zip$", c.name) and c.bb not in f.cleanup]
    ctx.check(bool(zs) and all(zip_guarded(F, f, c) for c in zs), "C09.R4", "equals_slice:length-guard",
              "element-wise comparison is guarded by an equality test of the two lengths",
              "equals_slice zips without comparing lengths: a sequence equals its own prefix", fn=f)


def r5_sorted(ctx, F):
    """`sorted` is stable: it uses the stable slice sort with the direction inside the comparator, and does not
    reverse the sorted vector afterwards (which would reverse the order of equal keys)"""
    from kern import natives
    ns = [n for n in natives(F) if n.name == "sorted" and n.impl is not None]
    if len(ns) != 1:
        ctx.bad("C09.R5", "sorted:anchor", "anchor-missing: the `sorted` native (%d found)" % len(ns))
        return
    f = ns[0].impl
    bodies = [f] + F.closures_of(f)
    sorts = [c for g in bodies for c in g.calls if re.search(r"slice::<impl \[T\]>::sort\w*$", c.name)]
    stable = [c for c in sorts if re.search(r"::(sort|sort_by|sort_by_key|sort_by_cached_key)$", c.name)]
    ctx.check(bool(sorts) and len(stable) == len(sorts), "C09.R5", "sorted:stable-sort",
              "sorted() uses the stable slice sort",
              "sorted() uses an unstable sort (%s): elements with equal keys can change their relative order"
              % sorted({c.name.split("::")[-1] for c in sorts if c not in stable}), fn=f)
    revs = [c for c in f.calls if re.search(r"slice::<impl \[T\]>::reverse$", c.name) and c.bb not in f.cleanup
            and sorts and any(c.bb in f.after(s_.bb) for s_ in sorts if s_.fn is f)]
    ctx.check(not revs, "C09.R5", "sorted:no-reverse-after-sort",
              "the sorted vector is not reversed afterwards (the direction is part of the comparison)",
              "sorted() reverses the vector after a stable ascending sort: with reverse=True elements whose keys "
              "compare equal come out in reversed order (the sort is no longer stable)", fn=f,
              line=revs[0].line if revs else None)
    # the direction is applied inside the comparator
    cmpc = [g for g in F.closures_of(f) if any(re.search(r"cmp::Ordering::reverse$", c.name) or re.search(
        r"Ordering::reverse", c.full) for c in g.calls) or any("cmp::Ordering::reverse" in st.text() for st in g.stmts)]
    ctx.check(bool(cmpc), "C09.R5", "sorted:direction-in-comparator",
              "reverse=True is implemented by reversing the comparison result",
              "sorted() no longer reverses the comparison inside the comparator", fn=f)


LOSSY_INT_TO_FLOAT = re.compile(r"(NumRef::<'v>::as_float|StarlarkIntRef::<'v>::to_f64|StarlarkBigInt::to_f64|"
                                r"ToPrimitive for num_bigint::BigInt>::to_f64|ToPrimitive for num_bigint::BigUint>::to_f64|"
                                r"StarlarkInt::to_f64)$")
NUM_CMP_ENTRIES = [r"<values::types::num::value::NumRef<'v> as std::cmp::Ord>::cmp$",
                   r"<values::types::num::value::NumRef<'v> as std::cmp::PartialEq>::eq$"]


def _direct_reach(F, start, limit=400):
    seen, work = {}, [start]
    while work and len(seen) < limit:
        f = work.pop()
        if f.uid in seen:
            continue
        seen[f.uid] = f
        for c in f.calls:
            if c.indirect or c.bb in f.cleanup:
                continue
            g = F.fns.get(c.callee_uid())
            if g is not None and g.crate == "starlark":
                work.append(g)
        for cl in F.closures_of(f):
            work.append(cl)
    return list(seen.values())


def r6_exact_mixed_comparison(ctx, F):
    """equality and ordering between an int and a float are decided on the mathematical values: nothing reachable from
    NumRef's Ord/PartialEq rounds an integer of arbitrary size to a float first (that makes two different big integers
    equal to one float: equality stops being transitive and a sorted list is no longer ordered)"""
    n = 0
    for pat in NUM_CMP_ENTRIES:
        e = F.one(pat)
        for f in _direct_reach(F, e):
            for c in f.calls:
                if c.indirect or c.bb in f.cleanup:
                    continue
                n += 1
                if LOSSY_INT_TO_FLOAT.search(c.name):
                    ctx.bad("C09.R6", "lossy-int-to-float:%s<-%s" % (short_fn(c.name), short_fn(top_fn(F, f).qpath)),
                            "number comparison (%s) reaches `%s` in `%s`: an integer beyond 2^53 is rounded to a float "
                            "before it is compared, so e.g. 2**53+1 == float(2**53) and equality is not transitive"
                            % (short_fn(e.qpath), c.name, short_fn(f.qpath)), fn=f, line=c.line)
            for st in f.stmts:
                if st.kind == "cast IntToFloat" and st.bb not in f.cleanup and len(st.ops) > 1:
                    src = st.ops[1].split(" -> ")[0].strip()
                    n += 1
                    ctx.check(src in ("i8", "i16", "i32", "u8", "u16", "u32"), "C09.R6",
                              "int-to-float-cast:%s:%s" % (short_fn(top_fn(F, f).qpath), src),
                              "only integers of at most 32 bits are cast to f64 (exact)",
                              "`%s` casts %s to a float inside number comparison: not exact beyond 2^53"
                              % (short_fn(f.qpath), src), fn=f, line=st.line)
        ctx.ok("C09.R6", "exact:" + short_fn(e.qpath), "no lossy integer-to-float conversion is reachable")
    # the three numeric value types compare only through NumRef
    for name, pat in NUM_CLASS.items():
        im = sv_impls(F, pat)
        if len(im) != 1:
            continue
        for meth, target in (("equals", NUM_CMP_ENTRIES[1]), ("compare", NUM_CMP_ENTRIES[0])):
            b = method_body(F, im[0], meth)
            if b is None:
                ctx.bad("C09.R6", "funnel:%s.%s" % (name, meth), "anchor-missing: %s::%s" % (name, meth))
                continue
            fs = _direct_reach(F, b, limit=60)
            hit = any(re.search(target, g.qpath) for g in fs) or any(
                re.search(r"NumRef<'_> as std::cmp::(Ord|PartialOrd|PartialEq)>|"
                          r"Option<values::types::num::value::NumRef<'_>> as std::cmp::PartialEq>::eq$", c.full)
                for g in fs[:3] for c in g.calls if c.bb not in g.cleanup)
            lossy = [c for g in fs[:1] for c in g.calls if LOSSY_INT_TO_FLOAT.search(c.name) and c.bb not in g.cleanup]
            ctx.check(hit and not lossy, "C09.R6", "funnel:%s.%s" % (name, meth),
                      "%s::%s is decided by NumRef's comparison" % (name, meth),
                      "%s::%s %s" % (name, meth, "converts an integer to a float itself" if lossy else
                                     "no longer goes through NumRef's comparison"), fn=b)
    ctx.floor("C09.R6", "calls/casts inspected under number comparison", n, 15, inventory=True)


def r7_canonical_order_compare(ctx, F):
    """struct equality ignores field order (equals_small_map looks every key up), so the ordering must too: in
    compare_small_map every comparison of two field values takes its operands from the key-sorted iteration"""
    f = F.one(r"values::comparison::compare_small_map$")
    pc = re.compile(r"(Iterator(>)?::(next|zip|map|enumerate)$|IntoIterator(>)?::into_iter$|Try>::branch$|"
                    r"Option::<.*>::(unwrap\w*|expect)$)")
    n = 0
    for c in f.calls:
        if c.bb in f.cleanup or not re.search(r"ops::Fn(Mut|Once)?::call(_mut|_once)?$", c.name) or len(c.args) < 2:
            continue
        who = {o[1] for o in origins(f, c.args[0], pass_calls=None) if o[0] == "param"}
        # the value comparator is the parameter of type `impl Fn(&V1, &V2) -> Result<Ordering, _>`
        # (`key`, applied to keys, returns K2)
        if not any(re.search(r"Fn\(&V1, &V2\)|-> Result<(std::cmp::)?Ordering", f.locals.get(p, "")) for p in who):
            continue
        n += 1
        srcs = set()
        work, done = [c.args[1]], set()
        while work:
            op = work.pop()
            if op in done:
                continue
            done.add(op)
            for o in origins(f, op, pass_calls=pc, through_all_args=True):
                if o[0] == "call":
                    srcs.add(o[1].name)
                elif o[0] == "agg":  # the argument tuple / a pair: follow its components
                    work.extend(" | ".join(o[1].ops).split(" | "))
        ctx.check(any(re.search(r"Itertools::sorted\w*$|::sort\w*$", x) for x in srcs), "C09.R7",
                  "struct-compare-sorted:call@%d" % n,
                  "the compared field values come from the key-sorted iteration of both maps",
                  "compare_small_map compares field values taken from %s, not from the key-sorted iteration: structs "
                  "that are equal (same fields in another order) now order differently against a third struct"
                  % sorted(short_fn(x) for x in srcs), fn=f, line=c.line)
    ctx.floor("C09.R7", "value comparisons in compare_small_map", n, 1)


def run(ctx):
    F = ctx.facts("core")
    r7_canonical_order_compare(ctx, F)
    # `x == <int literal>` falls back to the general equality for operands of another type (shared with C02.R6)
    from rules.C02 import r6_specialised_equality
    r6_specialised_equality(ctx, F, rule="C09.R8")
    r6_exact_mixed_comparison(ctx, F)
    r4_slices(ctx, F)
    r5_sorted(ctx, F)
    r1_numeric(ctx, F)
    r2_unchecked(ctx, F)
    r3_siblings(ctx, F)
