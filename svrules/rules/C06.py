"""C06 - the parser builds the tree the grammar prescribes (precedence and first-set clauses)."""
import re

from kern import arm_constant, calls_by_name, match_arms, short_fn

DESCRIPTION = ("C06 clauses decided: R1 the binding-power table of the Pratt parser (extracted from the MIR switch of "
               "infix_binding_power) realises the reference precedence relation of the Starlark/Python grammar: "
               "token/operator pairing, equal powers inside a class, left associativity, strictly ordered classes, and "
               "the `not` / `not in` constants agree with the comparison class; R2 the two copies of the infix loop "
               "(parse_expr / continue_infix) and of the postfix loop (parse_primary / continue_primary) agree; "
               "R3 the expression first-set predicate (is_expr_start) covers every token the prefix/atom parsers accept.")
NOT_DECIDED = ("acceptance equality with the reference grammar for statements and arguments, and the print/parse round "
               "trip: value/tree-level")

TOK = r"lexer::Token$"
P = r"starlark_syntax::syntax::parser_rd::ParserRd::<'a, I>::%s$"

# reference precedence relation (Starlark spec / Python grammar), loosest first
CLASSES = [
    ("or", {"Or": "Or"}),
    ("and", {"And": "And"}),
    ("comparison", {"EqualEqual": "Equal", "BangEqual": "NotEqual", "LessThan": "Less", "GreaterThan": "Greater",
                    "LessEqual": "LessOrEqual", "GreaterEqual": "GreaterOrEqual", "In": "In", "Not": "NotIn"}),
    ("|", {"Pipe": "BitOr"}),
    ("^", {"Caret": "BitXor"}),
    ("&", {"Ampersand": "BitAnd"}),
    ("shift", {"LessLess": "LeftShift", "GreaterGreater": "RightShift"}),
    ("additive", {"Plus": "Add", "Minus": "Subtract"}),
    ("multiplicative", {"Star": "Multiply", "Percent": "Percent", "Slash": "Divide", "SlashSlash": "FloorDivide"}),
]


def table(ctx, F):
    f = F.one(P % "infix_binding_power")
    m = match_arms(F, f, TOK)
    if not m:
        ctx.bad("C06.R1", "table:anchor", "anchor-missing: match on Token in infix_binding_power", fn=f)
        return None, f
    bb, arms, other, allv = m
    tab = {}
    for tok, t in arms.items():
        op = None
        pw = None
        for st in f.stmts_in(t):
            mo = re.search(r"agg adt syntax::ast::BinOp::(\w+)$", st.kind)
            if mo:
                op = mo.group(1)
            if st.kind == "agg tuple":
                cs = re.findall(r"const Scalar\(0x([0-9a-f]+)\): u8", st.text())
                if len(cs) == 2:
                    pw = (int(cs[0], 16), int(cs[1], 16))
        tab[tok] = (op, pw)
    k = arm_constant(f, other)
    ctx.check(k is not None and "Option::None" in k, "C06.R1", "table:otherwise-none",
              "every other token is not an infix operator", "infix_binding_power's default arm is not None", fn=f)
    return tab, f


def r1(ctx, F):
    tab, f = table(ctx, F)
    if tab is None:
        return None
    ctx.info["binding_powers"] = {k: [v[0], list(v[1]) if v[1] else None] for k, v in sorted(tab.items())}
    expected = {t for _, c in CLASSES for t in c}
    for t in sorted(set(tab) - expected):
        ctx.bad("C06.R1", "table:extra-token:" + t, "token %s has an infix binding power but is not a binary operator of "
                                                    "the reference grammar" % t, fn=f)
    prev = None
    cmp_pw = None
    for cname, toks in CLASSES:
        pws = set()
        for t, op in toks.items():
            got = tab.get(t)
            ctx.check(got is not None and got[0] == op and got[1] is not None, "C06.R1", "table:%s->%s" % (t, op),
                      "token %s maps to BinOp::%s with a binding power" % (t, op),
                      "token %s should map to BinOp::%s (found %s)" % (t, op, got), fn=f)
            if got and got[1]:
                pws.add(got[1])
        ctx.check(len(pws) == 1, "C06.R1", "class-uniform:" + cname,
                  "all operators of the class share one binding power",
                  "operators of class `%s` have different binding powers %s: e.g. `a %s b %s c` no longer groups left "
                  "to right" % (cname, sorted(pws), list(toks)[0], list(toks)[-1]), fn=f)
        if len(pws) != 1:
            prev = None
            continue
        l, r = next(iter(pws))
        ctx.check(l < r, "C06.R1", "left-assoc:" + cname, "lbp < rbp (left associative)",
                  "class `%s` has lbp %d >= rbp %d: the operators became right-associative / non-terminating" % (cname, l, r),
                  fn=f)
        if prev is not None:
            pl, pr, pname = prev
            ctx.check(pr <= l and pl < l, "C06.R1", "order:%s<%s" % (pname, cname),
                      "class `%s` binds tighter than `%s`" % (cname, pname),
                      "precedence inverted or merged: `%s` (%d,%d) must bind looser than `%s` (%d,%d)"
                      % (pname, pl, pr, cname, l, r), fn=f)
        prev = (l, r, cname)
        if cname == "comparison":
            cmp_pw = (l, r)
    return cmp_pw


def u8_consts(fn):
    out = set()
    for st in fn.stmts:
        if st.bb in fn.cleanup:
            continue
        for c in re.findall(r"const Scalar\(0x([0-9a-f]+)\): u8", st.text()):
            out.add(int(c, 16))
    for c in fn.calls:
        if c.bb in fn.cleanup:
            continue
        for a in c.args:
            for x in re.findall(r"const Scalar\(0x([0-9a-f]+)\): u8", a):
                out.add(int(x, 16))
    return out


def sig(fn):
    callees = {c.name.split("::")[-1] for c in fn.calls if "parser_rd::ParserRd" in c.name and c.bb not in fn.cleanup}
    aggs = {st.kind.split("::")[-1] for st in fn.stmts if st.kind.startswith("agg adt syntax::ast::")}
    return callees, aggs


def r2(ctx, F, cmp_pw):
    pe = F.one(P % "parse_expr")
    ci = F.one(P % "continue_infix")
    for fn in (pe, ci):
        cs = u8_consts(fn)
        named = any("NOT_IN" in st.text() or re.search(r"const .*::[A-Z_]+_BP", st.text()) for st in fn.stmts) or any(
            re.search(r"const .*::[A-Z_]+_BP|NOT_IN", a) for c in fn.calls for a in c.args)
        # literal powers must be the comparison class's; when the powers come from a named constant instead of
        # literals there is nothing to compare in this body
        ctx.check(cmp_pw is not None and cs <= set(cmp_pw) and (cs == set(cmp_pw) or named or fn.name == "parse_expr" and cs), "C06.R2", "not-constants:" + fn.name,
                  "the literal binding powers used for `not` / `not in` are exactly the comparison class's %s" % (cmp_pw,),
                  "%s uses literal binding powers %s, but the comparison class of the table is %s: `not`/`not in` no "
                  "longer bind like the other comparisons" % (fn.name, sorted(cs), cmp_pw), fn=fn)
        ibp = calls_by_name(fn, r"ParserRd::<'a, I>::infix_binding_power$")
        from kern import calls_to
        rcc = calls_to(F, fn, r"ParserRd::<'a, I>::reject_chained_comparison$")
        isc = calls_by_name(fn, r"ParserRd::<'a, I>::is_comparison$")
        ctx.check(bool(ibp), "C06.R2", "uses-table:" + fn.name, "the loop takes its powers from infix_binding_power",
                  "%s no longer consults infix_binding_power" % fn.name, fn=fn)
        ctx.check(len(rcc) >= 2 and bool(isc), "C06.R2", "rejects-chains:" + fn.name,
                  "chained comparisons are rejected after `not in` and after every comparison operator",
                  "%s accepts chained comparisons (a < b < c) in %s" % (fn.name, "call arguments" if fn is ci else
                                                                         "expressions"), fn=fn)
        # recursion on the right operand with the table's right power (a non-constant u8 argument exists)
        rec = [c for c in fn.calls if re.search(r"ParserRd::<'a, I>::parse_expr$", c.name) and c.bb not in fn.cleanup]
        nonconst = [c for c in rec if not c.args[-1].startswith("const")]
        ctx.check(bool(nonconst), "C06.R2", "rhs-uses-rbp:" + fn.name,
                  "the right operand is parsed with the operator's right binding power",
                  "%s parses the right operand with a constant power" % fn.name, fn=fn)
    a, b = sig(pe), sig(ci)
    need = {"infix_binding_power", "reject_chained_comparison", "is_comparison", "parse_expr"}
    ctx.check(need <= a[0] and need <= b[0], "C06.R2", "siblings:infix-loop-callees",
              "parse_expr and continue_infix use the same helper set",
              "parse_expr / continue_infix diverged: helpers %s vs %s" % (sorted(a[0] & need), sorted(b[0] & need)), fn=ci)
    # postfix loops
    pp = F.one(P % "parse_primary")
    cp = F.one(P % "continue_primary")
    ma, mb = match_arms(F, pp, TOK), match_arms(F, cp, TOK)
    if not ma or not mb:
        ctx.bad("C06.R2", "siblings:postfix:anchor", "anchor-missing: match on Token in parse_primary/continue_primary")
    else:
        ctx.check(set(ma[1]) == set(mb[1]), "C06.R2", "siblings:postfix-tokens",
                  "parse_primary and continue_primary dispatch on the same postfix tokens %s" % sorted(ma[1]),
                  "postfix handling diverged: parse_primary handles %s, continue_primary handles %s"
                  % (sorted(ma[1]), sorted(mb[1])), fn=cp)
        sa, sb = sig(pp)[1], sig(cp)[1]
        ctx.check(sa == sb, "C06.R2", "siblings:postfix-nodes", "both build the same node kinds",
                  "parse_primary builds %s but continue_primary builds %s" % (sorted(sa), sorted(sb)), fn=cp)


def r3(ctx, F):
    ies = F.one(P % "is_expr_start")
    pa = F.one(P % "parse_atom")
    pu = F.one(P % "parse_unary")
    pe = F.one(P % "parse_expr")
    m1, m2, m3, m4 = (match_arms(F, x, TOK) for x in (ies, pa, pu, pe))
    if not all((m1, m2, m3, m4)):
        ctx.bad("C06.R3", "first-set:anchor", "anchor-missing: Token matches in is_expr_start/parse_atom/parse_unary")
        return
    first = set()
    bb, arms, other, allv = m1
    kf = arm_constant(ies, other)
    for t, blk in arms.items():
        first.add(t)
    need = set(m2[1]) | set(m3[1]) | set(m4[1])
    ctx.info["expr_first_set"] = sorted(first)
    for t in sorted(need):
        ctx.check(t in first, "C06.R3", "first-set:" + t,
                  "is_expr_start accepts %s, which the expression parser can start with" % t,
                  "is_expr_start does not accept Token::%s although %s parses an expression starting with it: after a "
                  "comma such an element is taken for a trailing comma and accepted programs are rejected" % (
                      t, "parse_atom" if t in m2[1] else "parse_unary" if t in m3[1] else "parse_expr"), fn=ies)
    for t in sorted(first - need):
        ctx.bad("C06.R3", "first-set-extra:" + t,
                "is_expr_start accepts Token::%s but no prefix/atom parser handles it" % t, fn=ies)


def r4_slice_optionals(ctx, F):
    """slice grammar `x[start? : stop? (: step?)?]`: every component is optional. In the functions that build
    Expr::Slice, after the second colon is eaten there is a path to the closing bracket that parses no expression
    (`x[a:b:]`), and after the first colon there is a path to the second-colon test that parses none (`x[a::c]`)."""
    from kern import bool_call_edges
    root = F.one(P % "parse_index_or_slice")
    fs = {root.uid: root}
    for c in root.calls:
        g = F.fns.get(c.callee_uid()) if not c.indirect else None
        if g is not None and "parser_rd::ParserRd" in g.qpath and g.name not in ("parse_test", "parse_expr", "peek", "eat",
                                                                                "advance", "expect", "parse_atom"):
            fs[g.uid] = g
    n = 0
    for g in fs.values():
        pt = {c.bb for c in g.calls if c.bb not in g.cleanup and re.search(r"ParserRd::<'a, I>::parse_\w+$", c.name)
              and not re.search(r"parse_index_or_slice$", c.name) and F.fns.get(c.callee_uid()) is not None
              and F.fns[c.callee_uid()].uid not in fs}
        exp = {c.bb for c in g.calls if c.bb not in g.cleanup and re.search(r"ParserRd::<'a, I>::expect$", c.name)}
        eats = [c for c in g.calls if c.bb not in g.cleanup and re.search(r"ParserRd::<'a, I>::eat$", c.name)]
        for e in eats:
            n += 1
            tgt = [b for (_, b) in bool_call_edges(F, g, e, "true")]
            ok = bool(tgt) and bool(exp & g.reach(tgt, cut_blocks=pt))
            ctx.check(ok, "C06.R4", "slice-step-optional:%s@eat%d" % (g.name, n),
                      "after the second colon the closing bracket can follow directly",
                      "%s: once the second `:` of a slice is eaten every path parses an expression before `]`: "
                      "`x[a:b:]` / `x[::]`, which the reference grammar accepts, are rejected" % g.name, fn=g, line=e.line)
            adv = [a for a in g.calls if a.bb not in g.cleanup and re.search(r"ParserRd::<'a, I>::advance$", a.name)
                   and e.bb in g.after(a.bb)]
            for a in adv:
                ctx.check(e.bb in g.reach(list(g.succs(a.bb)), cut_blocks=pt), "C06.R4",
                          "slice-stop-optional:%s@eat%d" % (g.name, n),
                          "after the first colon the second colon can follow directly",
                          "%s: after the first `:` of a slice every path parses an expression before testing for the "
                          "second `:`: `x[a::c]` is rejected" % g.name, fn=g, line=a.line)
    ctx.floor("C06.R4", "second-colon tests in the slice parser", n, 1)


def r5_dedent_matches_level(ctx, F):
    """block structure: a line that dedents closes blocks only down to an indentation level that is on the stack - the
    Dedent tokens are emitted only after the new indentation was found EQUAL to an open level (a dedent to a column
    between two levels is "unindent does not match any outer indentation level" in the reference grammar; accepting it
    attaches the line to the wrong block)"""
    from kern import bool_local_edges
    f = F.one(r"lexer::Lexer::<'a>::calculate_indent$")
    ded = [st for st in f.stmts if st.kind.endswith("lexer::Token::Dedent") and st.bb not in f.cleanup]
    if not ded:
        ctx.bad("C06.R5", "dedent:anchor", "anchor-missing: emission of Token::Dedent in calculate_indent", fn=f)
        return
    eqs = [st for st in f.stmts if st.kind == "binop Eq" and st.bb not in f.cleanup and "const" not in st.ops[0]
           and (len(st.ops) < 2 or st.ops[1].strip() == "usize")]
    edges = set()
    for e in eqs:
        edges |= set(bool_local_edges(f, e.lhs, "true"))
    for d in ded:
        ctx.check(bool(edges) and any(f.edge_dominates(e, d.bb) for e in edges), "C06.R5", "dedent-after-level-equality",
                  "Dedent tokens are emitted only after `level == indent` held for an open level",
                  "calculate_indent can emit Dedent tokens without having found the new indentation equal to an open "
                  "level: a line indented between two open blocks is accepted and attached to the shallower block, "
                  "where the reference grammar rejects it", fn=f, line=d.line)


def run(ctx):
    F = ctx.facts("core")
    r4_slice_optionals(ctx, F)
    r5_dedent_matches_level(ctx, F)
    cmp_pw = r1(ctx, F)
    r2(ctx, F, cmp_pw)
    r3(ctx, F)
