"""C14 - evaluation is deterministic (structural clauses: inventories of the constructs that can leak
randomly-seeded hash order, addresses or ambient inputs into observable output)."""
import re

from kern import callers, reviewed, short_fn, top_fn

DESCRIPTION = ("C14 clauses decided: R1 every iteration over a std HashMap/HashSet whose hasher is the randomly seeded "
               "default is in a reviewed, order-insensitive position (maps with the deterministic StarlarkHasherBuilder "
               "are exempt by type); R2 identity/address types implement neither Ord nor Display, and address "
               "accessors / pointer-to-integer casts occur only in reviewed functions, none of them a "
               "Display/repr/compare/hash/JSON body of a value; R3 ambient inputs (clock, randomness, thread id, "
               "environment) are read only in profiling, timing and the serialization nonce.")
NOT_DECIDED = "byte-identical transcripts across processes: needs execution"

CRATES = ("starlark", "starlark_syntax", "starlark_map")

# R1 reviewed sites: (function short name) -> reason. Key has no line numbers.
HASH_ITER_TABLE = {
    "State::branch": "lint name analysis: merges per-branch sets (set union / intersection: order-insensitive); the "
                     "resulting lints are sorted by span before they are reported",
    "State::use_ident": "lint name analysis: marks every span of a set as used (order-insensitive)",
    "Assert::execute": "test helper: moves a HashMap of modules into the loader (insertion into another map)",
    "BcPairsProfileData as AddAssign::add_assign": "profile merge: per-key addition (order-insensitive)",
    "BcPairsProfileData::gen_csv": "profiler output: rows are sorted by count before being written",
    "typecheck::solve_bindings": "copies the binding->type map into the result map (insertion, order-insensitive)",
    "AstModule as AstModuleTypecheck::typecheck": "looks bindings up by id while building the interface map keyed by name "
                                                   "(insertion into a map; order-insensitive)",
    "Arena::allocated_summary": "heap summary: per-type counters are merged into a map (order-insensitive)",
    "CodeMaps::add_all": "adds every code map of another collection (insertion, order-insensitive)",
    "LintSuppressionsBuilder::update_lint_suppressions": "inserts suppression names into a set (order-insensitive)",
    "Context::check": "starlark_bin: copies the builtin symbol names into the lint globals set (insertion into a set)",
    "BazelContext::check": "starlark_bin: copies the builtin symbol names into the lint globals set (insertion into a set)",
    "VTABLE_REGISTRY::{closure#0}": "pagable vtable registry: the keys are collected and sorted by type name before indices "
                                    "are assigned",
}

# what each reviewed function iterates (key / element types of the map or set): a second iteration over ANOTHER map
# inside a reviewed function is a new site
HASH_ITER_TYPES = {
    "Arena::allocated_summary": [r"HashMap<values::layout::heap::repr::AValueHeader, "],
    "Assert::execute": [r"HashMap<string::String, environment::modules::FrozenModule>"],
    "AstModule as AstModuleTypecheck::typecheck": [r"HashMap<eval::compiler::scope::BindingId, typing::ty::Ty>"],
    "BazelContext::check": [r"HashMap<string::String, starlark_lsp::server::LspUri>"],
    "BcPairsProfileData as AddAssign::add_assign": [r"HashMap<\[eval::bc::opcode::BcOpcode; 2\], "],
    "BcPairsProfileData::gen_csv": [r"HashMap<\[eval::bc::opcode::BcOpcode; 2\], "],
    "CodeMaps::add_all": [r"HashMap<codemap::CodeMapId, codemap::CodeMap>"],
    "Context::check": [r"HashMap<string::String, starlark_lsp::server::LspUri>"],
    "LintSuppressionsBuilder::update_lint_suppressions": [r"HashSet<string::String>"],
    "State::branch": [r"HashMap<&str, \(analysis::names::Assigned, HashSet<starlark_syntax::codemap::Span>\)>",
                      r"HashSet<&str>", r"HashSet<starlark_syntax::codemap::Span>"],
    "State::use_ident": [r"HashSet<starlark_syntax::codemap::Span>"],
    "VTABLE_REGISTRY::{closure#0}": [r"HashMap<pagable::vtable_registry::DeserTypeId, "],
    "typecheck::solve_bindings": [r"HashMap<eval::compiler::scope::BindingId, typing::ty::Ty>"],
}


def _iterated_type(full):
    x = re.sub(r"std::collections::|std::hash::|std::", "", full)
    m = re.search(r"(HashMap|HashSet)(::)?<(.*)>(::\w+| as )", x)
    return (m.group(1) + "<" + m.group(3) + ">") if m else x


ORDER_TRAITS = re.compile(r"std::cmp::(Ord|PartialOrd)$|std::fmt::Display$")
IDENTITY_TYPES = re.compile(r"^values::layout::(identity::ValueIdentity|pointer::RawPointer|heap::heap_type::FrozenHeapPtr)\b")

# R2 reviewed address users
ADDR_ACCESSORS = {
    r"value::Value::<'v>::ptr_value$": {
        "ValueIndex as Trace::trace", "ValueIndex::index", "FunctionIds::get_value", "ValueIdentity::new",
        "recursive_repr_or_json_guard::repr_stack_push", "recursive_repr_or_json_guard::json_stack_push"},
    r"value::FrozenValue::ptr_value$": {
        "ValueIndex::index", "get_static_value_id::get_static_value_id",
        "StarlarkSerializerImpl as StarlarkSerializeContext::serialize_frozen_value"},
    r"pointer::RawPointer::ptr_value$": {
        "ForwardPtr::new_frozen", "ForwardPtr::new_unfrozen", "RawPointer as Debug::fmt",
        "PointerI32::from_raw_pointer_unchecked"},
    r"value::Value::<'v>::identity$": None,
    r"std::ptr::hash$": {"FrozenHeapRef as Hash::hash", "AValueHeader as Hash::hash"},
}
EXPOSE_OK = {
    "AValueHeader::new", "AValueRepr::from_payload_ptr_mut", "AllocatedThinBoxSlice::new_uninit",
    "AtomicSlotState::publish_in_progress", "BcInstrsWriter::finish", "BcPtrAddr::new", "FileSpan as Ord::cmp",
    "FrozenFrozenHeap as Drop::drop", "FrozenFrozenHeap::enrich_value_serialization_error",
    "FrozenFrozenHeap::find_reachable_value_for_diagnostic", "FrozenFrozenHeap::locate_value_for_diagnostic",
    "FrozenFrozenHeap::serialize_inner", "HeapDeserializationState::try_claim", "PackedImpl::unpack",
    "PointerI32::get", "STATIC_VALUE_MAPS::{closure#0}", "StarlarkArcBridge as ArcErase::identity",
    "StarlarkSerializerImpl as StarlarkSerializeContext::serialize_frozen_value", "StarlarkValueRawPtr::new_header",
    "StarlarkValueRawPtr::value_ptr", "WeakFrozenHeapRef::heap_ptr", "allocated_chunk_bases::append",
    "build_chunk_index::build_for_bump", "cast::ptr_to_usize", "get_static_value_id::get_static_value_id",
}
OBSERVABLE_BODY = re.compile(r"as (std::fmt::)?Display::fmt|as StarlarkValue::(collect_repr|collect_str|compare|write_hash|"
                             r"get_hash|equals|to_json)|as Serialize::serialize|to_json")

AMBIENT = re.compile(r"(time::Instant::now|time::SystemTime::now|^rand::|::rand::|thread::current|std::env::(var|vars|args)|"
                     r"process::id|hash::RandomState::new|getrandom)")
AMBIENT_OK = {
    "Module::freeze_impl": "eval/freeze duration statistics",
    "ProfilerInstant::now": "profiler clock",
    "Evaluator::eval_module": "evaluation duration statistics",
    "ReadLine::new": "REPL history file location",
    "HeapSerializationNonce::random": "random nonce identifying a serialized heap (never shown to programs)",
    "StarlarkDeserializerImpl::ensure_initialized": "thread-affinity assertion of the deserializer",
    "golden_test_template::golden_test_template": "test helper (golden file regeneration switch)",
}


def hash_iteration_sites(F):
    out = []
    for f in F.fns.values():
        if f.crate not in CRATES:
            continue
        for c in f.calls:
            if c.bb in f.cleanup or c.indirect:
                continue
            if re.search(r"(HashMap|HashSet)", c.name) and re.search(
                    r"::(iter|iter_mut|keys|values|values_mut|into_keys|into_values|drain|into_iter)$", c.name):
                det = "StarlarkHasherBuilder" in c.full or "BuildHasherDefault" in c.full
                out.append((f, c, det))
    return out


def r1(ctx, F, rule="C14.R1", only_files=None, table=None):
    table = HASH_ITER_TABLE if table is None else table
    sites = hash_iteration_sites(F)
    if only_files:
        sites = [(f, c, d) for f, c, d in sites if re.search(only_files, f.span)]
    n_rand = 0
    for f, c, det in sites:
        s = short_fn(top_fn(F, f).qpath)
        key = "%s:%s" % (s, c.name.split("::")[-1])
        if det:
            ctx.ok(rule, key + ":deterministic-hasher", "the map uses StarlarkHasherBuilder (fixed seed)")
            continue
        n_rand += 1
        reason = reviewed(F, table, s)
        if reason is not None and table is HASH_ITER_TABLE:
            # the review covers a particular map; resolve a renamed function to its table entry for the types
            ent = s if s in HASH_ITER_TYPES else next((k for k, v in table.items() if v == reason and k in HASH_ITER_TYPES), None)
            ty = _iterated_type(c.full)
            if ent is not None and not any(re.search(p, ty) for p in HASH_ITER_TYPES[ent]):
                reason = None
        ctx.check(reason is not None, rule, key, "reviewed: " + (reason or ""),
                  "`%s` iterates a std HashMap/HashSet with the randomly seeded default hasher (`%s`) and is not a "
                  "reviewed order-insensitive site: the iteration order differs between processes and can leak into "
                  "output" % (s, c.full[-90:]), fn=f, line=c.line)
    return len(sites), n_rand


def r2(ctx, F):
    for i in F.impls:
        if i["crate"] == "starlark" and IDENTITY_TYPES.search(i["selfty"]):
            if ORDER_TRAITS.search(i["trait"]):
                ctx.bad("C14.R2", "identity-impl:%s:%s" % (i["selfty"][:40], i["trait"].split("::")[-1]),
                        "address-carrying type `%s` implements `%s`: addresses can now order or print values"
                        % (i["selfty"], i["trait"]))
    ctx.ok("C14.R2", "identity-types-unordered", "ValueIdentity/RawPointer/FrozenHeapPtr implement neither Ord nor Display")
    n = 0
    for pat, allowed in ADDR_ACCESSORS.items():
        for f, c in callers(F, pat):
            if f.crate not in CRATES:
                continue
            n += 1
            s = short_fn(top_fn(F, f).qpath)
            if allowed is None:
                ctx.check(not OBSERVABLE_BODY.search(s), "C14.R2", "addr:%s<-%s" % (pat.split("::")[-1].rstrip("$"), s),
                          "identity used outside observable-output bodies",
                          "`%s` uses a value's address inside an observable-output body" % s, fn=f, line=c.line)
            else:
                ctx.check(bool(reviewed(F, allowed, s)), "C14.R2", "addr:%s<-%s" % (pat.split("::")[-1].rstrip("$"), s),
                          "reviewed address user (identity maps, cycle guards, forwarding, serialization ids)",
                          "`%s` reads a value's address (`%s`) and is not a reviewed user: an address may reach "
                          "observable output (repr, ordering, hash, error text)" % (s, c.name), fn=f, line=c.line)
    ctx.floor("C14.R2", "address accessor call sites", n, 15, inventory=True)
    m = 0
    for f in F.fns.values():
        if f.crate not in CRATES:
            continue
        casts = [st for st in f.stmts if st.kind.startswith("cast PointerExposeProvenance") and st.bb not in f.cleanup]
        if not casts:
            continue
        s = short_fn(top_fn(F, f).qpath)
        m += len(casts)
        ctx.check(bool(reviewed(F, EXPOSE_OK, s)) and not OBSERVABLE_BODY.search(s), "C14.R2", "ptr-to-int:" + s,
                  "reviewed pointer-to-integer cast (layout arithmetic, paging, diagnostics, tie-break)",
                  "`%s` casts a pointer to an integer and is not a reviewed site: an address may flow into observable "
                  "output" % s, fn=f, line=casts[0].line)
    ctx.floor("C14.R2", "pointer-to-integer casts", m, 30, inventory=True)


def r3(ctx, F):
    n = 0
    for f in F.fns.values():
        if f.crate not in CRATES:
            continue
        for c in f.calls:
            if c.indirect or c.bb in f.cleanup or not AMBIENT.search(c.name):
                continue
            n += 1
            s = short_fn(top_fn(F, f).qpath)
            what = "::".join(c.name.split("::")[-2:])
            ctx.check(bool(reviewed(F, AMBIENT_OK, s)), "C14.R3", "ambient:%s:%s" % (s, what), "reviewed: " + AMBIENT_OK.get(s, ""),
                      "`%s` reads an ambient input (`%s`): evaluation results may now depend on time, randomness, "
                      "thread or environment" % (s, c.name), fn=f, line=c.line)
    ctx.floor("C14.R3", "ambient input reads", n, 6, inventory=True)


def run(ctx):
    F = ctx.facts("core")
    total, nrand = r1(ctx, F)
    ctx.floor("C14.R1", "HashMap/HashSet iteration sites", total, 20, inventory=True)
    ctx.info["random_hasher_iteration_sites"] = nrand
    r2(ctx, F)
    r3(ctx, F)
    # thread-history clause: the thread-local depth counter is balanced (shared with C07.R2 guard balance)
    from rules.C07 import r2b_guard_balance
    r2b_guard_balance(ctx, F, rule="C14.R4")
