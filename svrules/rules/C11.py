"""C11 - ordered maps and sets (structural clauses: index/entries pairing, uniqueness precondition)."""
import re

from kern import calls_by_name, callers, field_reads_of, origins, outcome_edges, short_fn, top_fn

DESCRIPTION = ("C11 clauses decided: R1 every SmallMap method that structurally changes the entry vector also maintains "
               "the hash index in the same body or holds the RebuildIndexOnDrop guard (constructed before the "
               "mutation; its drop rebuilds the index); R2 every use of the duplicate-unchecked insertions is a "
               "forwarder of the same precondition, inserts the keys of one existing map/set into a fresh container, "
               "is dominated by a failed lookup on the same receiver, or is in the reviewed table.")
NOT_DECIDED = "that the index adjustment arithmetic is right (e.g. which positions shift after a removal): a history property"

NON_STRUCTURAL = {"get_unchecked_mut", "iter_mut", "iter_mut_unchecked", "values_mut", "reserve"}

UNIQUE_TABLE = {
    "Arguments::names_map": "argument names of one call: duplicates are rejected when the call is compiled/collected "
                            "(check_unique / the kwargs dict itself has unique keys)",
    "LazyKwargs::insert": "insert() probes the map first and only falls through to the unchecked insert on a miss",
    "LazyKwargs::insert_unique_unchecked": "forwarder",
    "SetData::add_hashed_unique_unchecked": "forwarder",
    "VacantEntry::insert_entry": "a VacantEntry is only produced by a failed lookup of that key",
}


def r1_paired(ctx, F):
    vm = [f for f in F.fns.values() if re.match(r"starlark_map::vec_map::VecMap::<K, V>::\w+$", f.qpath)]
    mut = {f.name for f in vm if f.locals.get("_1", "").startswith("&mut")}
    structural = mut - NON_STRUCTURAL
    ctx.floor("C11.R1", "structural VecMap mutators", len(structural), 8)
    ctx.info["structural_vecmap_mutators"] = sorted(structural)
    meths = [f for f in F.fns.values() if re.match(r"starlark_map::small_map::SmallMap::<K, V>::\w+$", f.qpath)]
    n = 0
    for f in meths:
        muts = [c for c in f.calls if re.match(r"starlark_map::vec_map::VecMap::<K, V>::\w+$", c.name)
                and c.name.split("::")[-1] in structural and c.bb not in f.cleanup]
        if not muts:
            continue
        n += 1
        from kern import field_mut_access_of
        reads = field_reads_of(F, f, "small_map::SmallMap", "_1", depth=0) | field_mut_access_of(
            F, f, "small_map::SmallMap", "_1", depth=1)
        guards = [st for st in f.stmts if st.kind.endswith("RebuildIndexOnDrop::RebuildIndexOnDrop") or
                  "RebuildIndexOnDrop" in st.kind]
        if guards:
            good = all(any(f.dominates(g.bb, m.bb) for g in guards) for m in muts)
            ctx.check(good, "C11.R1", "paired:" + f.name,
                      "the RebuildIndexOnDrop guard is constructed before the structural mutation (index rebuilt even "
                      "on unwind)",
                      "SmallMap::%s mutates the entries before/without constructing the RebuildIndexOnDrop guard" % f.name,
                      fn=f)
        else:
            ctx.check("index" in reads, "C11.R1", "paired:" + f.name,
                      "the method maintains self.index in the same body",
                      "SmallMap::%s changes the entry vector (%s) but never touches self.index: lookups by key go "
                      "through a stale index" % (f.name, sorted({m.name.split("::")[-1] for m in muts})), fn=f)
    ctx.floor("C11.R1", "SmallMap methods with structural mutation", n, 8)
    drs = F.find(r"RebuildIndexOnDrop<'_, K, V> as std::ops::Drop>::drop$")
    ctx.floor("C11.R1", "RebuildIndexOnDrop guards", len(drs), 2)
    for d in drs:
        cs = calls_by_name(d, r"SmallMap::<K, V>::rebuild_index$|rebuild_index$")
        uncond = bool(cs) and d.must_pass_from_entry([c.bb for c in cs], d.returns())
        # a conditional rebuild is accepted only when the condition compares entry counts (nothing removed => index valid)
        cond_ok = bool(cs) and any(re.match(r"binop (Lt|Le|Gt|Ge|Ne|Eq)", st.kind) and "usize" in st.text()
                                   for st in d.stmts if st.bb not in d.cleanup)
        ctx.check(uncond or cond_ok, "C11.R1",
                  "guard-drop:rebuilds:" + short_fn(top_fn(F, d).qpath) + ":" + d.qpath.split("::")[-4 if False else -3][:20],
                  "dropping the guard calls rebuild_index (unconditionally, or unless no entry was removed)",
                  "RebuildIndexOnDrop::drop no longer rebuilds the index", fn=d)
    # clear(): on every path the index ends up empty: it is cleared, dropped (set to None), or was None already
    cl = F.one(r"starlark_map::small_map::SmallMap::<K, V>::clear$")
    from kern import switch_info, enum_variant_names
    idx_clear = [c for c in cl.calls if c.bb not in cl.cleanup and re.search(r"hashbrown::HashTable::<T, A>::clear$", c.name)]
    set_none = [st for st in cl.stmts if st.lhs.endswith("{small_map::SmallMap::index}") and st.bb not in cl.cleanup]
    none_edges = set()
    for b in cl.terms:
        info = switch_info(cl, b)
        from kern import resolve_place
        if info and info["kind"] == "enum" and info["place"] and "{small_map::SmallMap::index}" in resolve_place(
                cl, info["place"]):
            names = enum_variant_names(F, info["ty"])
            for v, t in info["targets"].items():
                if names.get(v) == "None":
                    none_edges.add((b, t))
            if "None" in names.values() and not any(names.get(v) == "None" for v in info["targets"]):
                none_edges.add((b, info["otherwise"]))
    r = cl.reach(0, cut_blocks={c.bb for c in idx_clear} | {st.bb for st in set_none}, cut_edges=none_edges)
    ctx.check(not (set(cl.returns()) & r), "C11.R1", "clear:index-emptied-on-every-path",
              "every path through clear() empties the index, drops it, or finds it absent",
              "SmallMap::clear can return with the hash index still holding the positions of the removed entries "
              "(lookups after a refill go through stale slots)", fn=cl)
    # SmallSet wrappers delegate to SmallMap (no own index handling)
    ss = [f for f in F.fns.values() if re.match(r"starlark_map::small_set::SmallSet::<T>::\w+$", f.qpath)]
    direct = [f for f in ss if any(re.match(r"starlark_map::vec_map::VecMap::<K, V>::\w+$", c.name)
                                   and c.name.split("::")[-1] in structural for c in f.calls)]
    ctx.check(not direct, "C11.R1", "SmallSet:delegates", "SmallSet never mutates a VecMap directly",
              "SmallSet methods %s mutate the backing vector directly, bypassing SmallMap's index maintenance"
              % [f.name for f in direct])


def r2_unique(ctx, F):
    pat = (r"(SmallMap::<K, V>|SmallSet::<T>|VecMap::<K, V>|OrderedMap::<K, V>|OrderedSet::<T>)::"
           r"(insert_hashed_unique_unchecked|insert_unique_unchecked)$")
    sites = callers(F, pat)
    ctx.floor("C11.R2", "unique-unchecked insertion sites", len(sites), 22, inventory=True)
    for f, c in sites:
        t = top_fn(F, f)
        s = short_fn(t.qpath)
        key = "%s->%s" % (s, c.name.split("::")[-1])
        if re.search(r"unique_unchecked$", t.name):
            ctx.ok("C11.R2", key + ":forwarder", "forwards the same precondition to its caller")
            continue
        recv = origins(f, c.args[0])
        fresh = bool(recv) and all(o[0] == "call" and re.search(r"::(with_capacity|new|default)$", o[1].name) for o in recv)
        from_iter = [x for x in f.calls if re.search(r"(SmallMap::<K, V>|SmallSet::<T>)::into_iter_hashed$", x.name)]
        one_src = [x for x in f.calls if re.search(r"(SmallMap::<K, V>|SmallSet::<T>|SetData::<'v>|Dict::<'v>)::(iter_hashed|into_iter_hashed)$", x.name)]
        nexts = [x for x in f.calls if re.search(r"Iterator>::next$", x.name)]
        elem = origins(f, c.args[1], through_all_args=False) if len(c.args) > 1 else set()
        from_next = any(o[0] == "call" and o[1] in nexts for o in elem)
        if fresh and len(one_src) == 1 and from_next:
            ctx.ok("C11.R2", key + ":fresh+subset-of-one-source",
                   "the inserted keys are (a filtered subset of) the keys of one existing set/map, in a fresh container")
            continue
        if fresh and from_iter and re.search(r"as FreezeBranded::freeze$", s):
            ctx.ok("C11.R2", key + ":fresh+one-source",
                   "keys of one existing map/set are moved into a container created in this body")
            continue
        look = [x for x in f.calls if re.search(r"get_index_of_hashed(_raw)?$|contains_hashed$|get_hashed$", x.name)
                and x.bb not in f.cleanup and f.dominates(x.bb, c.bb) and x.bb != c.bb]
        ok = False
        for x in look:
            miss = outcome_edges(F, f, x, "None") | (set() if not re.search(r"contains_hashed$", x.name) else
                                                     __import__("kern").bool_call_edges(F, f, x, "false"))
            if miss and c.bb not in f.reach(0, cut_edges=miss):
                ok = True
        if ok:
            ctx.ok("C11.R2", key + ":failed-lookup", "dominated by the miss edge of a lookup")
            continue
        from kern import reviewed
        reason = reviewed(F, UNIQUE_TABLE, s)
        if reason is None and t.name == "__starlark_invoke_impl":
            reason = None
        ctx.check(reason is not None, "C11.R2", key, "reviewed: " + (reason or ""),
                  "`%s` inserts without the duplicate probe (`%s`) and the call is neither a forwarder, nor a "
                  "fresh-container copy of one map/set, nor dominated by a failed lookup: a duplicate key would "
                  "create two entries for one key" % (s, c.name.split("::")[-1]), fn=f, line=c.line)


def r3_index_replacement(ctx, F):
    """the hash index of a map that may hold entries is only ever replaced by `None` or by a table that was filled with
    one slot per entry (create_index): a `&mut self` method that stores a fresh, empty table loses every existing entry
    for lookups (iteration still sees them, `get`/`contains`/`insert` do not)"""
    n = 0
    for f in F.fns.values():
        if f.crate != "starlark_map" or not f.locals.get("_1", "").startswith("&mut"):
            continue
        for st in f.stmts:
            if "small_map::SmallMap::index}" not in st.lhs or st.bb in f.cleanup or not st.lhs.startswith("_1"):
                continue
            n += 1
            os_ = origins(f, st.ops[0], pass_calls=re.compile(r"(Box::<T>::new|Box::<T, A>::new)$"))
            # follow `Some(x)` aggregates to their payload
            work, srcs = list(os_), []
            seen = set()
            while work:
                o = work.pop()
                if o[0] == "agg":
                    if o[1].kind.endswith("Option::None"):
                        srcs.append(("none", None))
                        continue
                    for op in " | ".join(o[1].ops).split(" | "):
                        if op not in seen:
                            seen.add(op)
                            work.extend(origins(f, op, pass_calls=re.compile(r"(Box::<T>::new|Box::<T, A>::new)$")))
                else:
                    srcs.append(o)
            fills = [c for c in f.calls if c.bb not in f.cleanup and re.search(r"HashTable::<T, A>::insert_unique$|"
                                                                                r"HashTable::<T>::insert_unique$", c.name)]
            iters = [c for c in f.calls if c.bb not in f.cleanup and re.search(r"VecMap::<K, V>::(iter_hashed|iter|hashes)$",
                                                                                c.name)]
            ok = True
            why = ""
            for o in srcs:
                if o[0] == "none":
                    continue
                if o[0] == "call" and re.search(r"HashTable::<.*>::(with_capacity|new)$", o[1].name):
                    if not (fills and iters and all(st.bb in f.after(c.bb) for c in fills)):
                        ok, why = False, "a freshly created table that was not filled from the entries"
                elif o[0] == "call":
                    g = F.fns.get(o[1].callee_uid())
                    if g is None or not any(re.search(r"insert_unique$", c.name) for c in g.calls):
                        ok, why = False, "the result of `%s`, which does not fill the table from the entries" % short_fn(o[1].name)
                elif o[0] in ("param", "unknown"):
                    ok, why = False, "a value of unknown provenance"
            ctx.check(ok, "C11.R3", "index-replaced-by-filled-table:" + short_fn(f.qpath),
                      "the index is replaced by None or by a table filled from the entries",
                      "`%s` (a `&mut self` method: the map may hold entries) stores %s into the hash index: existing "
                      "entries are no longer found by key" % (short_fn(f.qpath), why), fn=f, line=st.line)
    ctx.floor("C11.R3", "writes of SmallMap.index in &mut self methods", n, 2)


def r4_stable_sorts(ctx, F):
    """sorting an insertion-ordered container keeps entries that compare equal in their insertion order (a plain list of
    pairs sorted with the same comparator is the model): the sort routines of the ordered containers (Vec2, VecMap,
    SmallMap/SmallSet and their wrappers) use the stable std sorts or their own insertion sort, never sort_unstable*"""
    n = 0
    for f in F.fns.values():
        if f.crate != "starlark_map" or not re.search(r"src/(vec2|vec_map|small_map|small_set|ordered_map|ordered_set|"
                                                      r"sorted_map|sorted_set|sorted_vec)\.rs", f.span):
            continue
        for c in f.calls:
            if c.bb in f.cleanup or c.indirect:
                continue
            if re.search(r"::sort(_by|_by_key|_by_cached_key)?$", c.name):
                n += 1
            if re.search(r"::sort_unstable(_by|_by_key)?$|select_nth_unstable", c.name):
                n += 1
                ctx.bad("C11.R4", "unstable-sort:" + short_fn(top_fn(F, f).qpath),
                        "`%s` sorts with `%s`: entries that compare equal are permuted, so the container no longer "
                        "matches a list of pairs sorted with the same comparator" % (
                            short_fn(top_fn(F, f).qpath), c.name.split("::")[-1]), fn=f, line=c.line)
    ctx.floor("C11.R4", "sort calls in the ordered containers", n, 5, inventory=True)
    ctx.ok("C11.R4", "ordered-containers-sort-stably", "no sort_unstable* in the ordered containers")


def run(ctx):
    F = ctx.facts("core")
    r3_index_replacement(ctx, F)
    r4_stable_sorts(ctx, F)
    r1_paired(ctx, F)
    r2_unique(ctx, F)
