#!/usr/bin/env python3
"""Generate MANIFEST.json from the per-property claim table below (keeps the file valid and consistent)."""
import json
import os

HERE = os.path.dirname(os.path.abspath(__file__))

NA = {
    "C01": "Static analysis not applicable: agreement with a reference interpreter is a relation between computed "
           "values of two implementations; no structural necessary condition exists beyond those claimed under "
           "C02/C12, and an executable oracle is a different technique family.",
}

NOT_BUILT = "check not built yet in this session (see DESIGN.md for the planned rules); not claimed until it exists"

# property -> (technique, level text, level note, design ref)
CLAIMS = {
    "C07": ("MIR dominance/must-pass-through + call-graph cycle analysis (custom rustc driver)",
            "Structural clauses only: call-stack/frame state restored on every normal path of with_call_stack, "
            "eval_module, alloca_frame (must-pass-through on MIR CFG); who-may-call of CheapCallStack push/pop; every "
            "vtable operation's native recursion passes a depth guard (cycle search in the resolved call graph with "
            "vtable-trampoline modelling); run_block errors leave through the span wrapper; panicking borrow_mut "
            "inventory; bytecode-writer counter pairing. Decides these necessary conditions for every path/site, "
            "not the behaviour. Added while building / after seeded changes: no dispatch that can reach a panicking RefCell borrow while a DictMut/SetMut is live (R4b), unwrap of a value type test only at reviewed sites (R5), no overflow-checked negation of a value-derived integer (R7), direct slice indexing only with validated indices (R8), a write of the recursion depth always yields the restoring StackGuard (R2b).",
            "Not decided: panics from arithmetic/indexing in builtins, `as` truncations, span containment (runtime "
            "values). Trusted: rustc nightly front end, svfacts printer, call-graph model (trait calls expanded to all "
            "impls of value traits; AValueDyn trampolines -> all impls).",
            "DESIGN.md section 2, C07"),
    "C12": ("MIR must-pass-through on loop-exit handlers + dominance in the return emitter + sibling pairing",
            "Structural clauses only: each structured loop exit (exhaustion in InstrIter/InstrContinue, break, "
            "return via write_return/write_iter_stop) reaches iter_stop on every path; exit by error (run_block Err "
            "arm) must stop open iterators (currently a known finding); list/dict/set acquire-release pairs and "
            "their frozen siblings agree; raw iterate/iter_stop trampolines used only by handlers and the RAII "
            "StarlarkIterator. Decides these necessary conditions for all paths, not each builtin's behaviour. Added: no unlocked view of a list's content is live across a call that can run user code (R6).",
            "Not decided: behaviour of every builtin x container combination at run time; mutator-side checks are "
            "claimed under C04. Trusted: rustc front end, svfacts, CFG kernels.",
            "DESIGN.md section 2, C12"),
    "C15": ("MIR dominance (tick before transfer), interprocedural over handler helpers; call-graph who-may-invoke",
            "Structural clauses only: every call-family instruction handler (those that can reach with_call_stack in "
            "the resolved call graph) and the loop back edge call report_forward_progress on every path before the "
            "transfer of control and propagate its error; raw invocations occur only under with_call_stack or in "
            "callee-side forwarders; CheapCallStack::push tests the bound before writing; the periodic check consults "
            "cancellation, heap and tick limits on every Ok path. The push/pop pairing clauses of C07.R1 are also evaluated here (a leaked frame corrupts depth accounting); who-may-call tolerates pure wrappers.",
            "Not decided: boundary arithmetic (>= vs >), tick totals. Trusted: rustc front end, svfacts, call-graph "
            "model.",
            "DESIGN.md section 2, C15"),
    "C03": ("K3 field coverage of every Trace body + who-may-call chain + constant-argument extraction + MIR dominance",
            "Structural clauses only: every Trace impl and the evaluator/module root set visit every field whose type "
            "can hold an unfrozen Value (decided on the MIR of the final trace bodies, so derive bugs show); the "
            "collection chain garbage_collect_internal <- Heap::garbage_collect <- Evaluator::garbage_collect <- "
            "possible_gc <- InstrPossibleGc is closed; GC points are emitted only under allow_gc, which is constant "
            "true only for module top-level statements and constant false for def and for bodies; copy protocol "
            "(forward before trace, fill after reserve, old arena outlives the trace); re-entrant evaluation disables "
            "GC; native recursion through heap_copy (known finding). Added after seeded changes: a traced by-value temporary must be written back (R1b); no early-exit iterator adaptor in a trace body (R1c); coverage requires the field to flow into a call, not merely be bound.",
            "Not decided: element-loop bounds, arena bookkeeping, user-stashed values. Trusted: rustc front end, "
            "svfacts, the value-bearing type predicate (type-string based, frozen leaves exempt by type).",
            "DESIGN.md section 2, C03"),
    "C13": ("MIR dominance (add_reference before hand-out) + unsafe-constructor inventory + dataflow into the sealed heap",
            "Structural clauses only: at the 12 sites that hand a frozen value of one heap to another heap/owner the "
            "add_reference call dominates the hand-out (three shapes); add_reference inserts on every not-present path; "
            "every OwnedFrozen/OwnedFrozenRef/HeapEdge::unchecked_new is dominated by add_reference or in the reviewed "
            "owner-paired table; into_ref_impl carries refs and arena into the sealed heap and shortcuts only when "
            "both are empty. Restated after a seeded change: the only exits of add_reference without insert are 'already present' and 'null heap'.",
            "Not decided: chunk reference counts across drop orders, use-after-free under adversarial histories "
            "(needs execution). Trusted: rustc front end, svfacts, reviewed owner-paired table.",
            "DESIGN.md section 2, C13"),
    "C04": ("K3 field coverage of every FreezeBranded::freeze body + MIR dominance (freeze protocol) + receiver "
            "provenance (backward slice) for list mutators + unsafe-Sync cell writer-set inventory",
            "Structural clauses only: every FreezeBranded::freeze consumes each value-bearing field and freezes children; "
            "heap_freeze forwards before freezing children and fills before Ok; Module::freeze_impl consumes all fields, "
            "freezes slots/extra_value, runs post_freeze after allocating the module data, and post_freeze optimises "
            "against the def's declaring module; every external call of a ListData/Array mutator has a receiver that "
            "comes from from_value_mut (check_can_mutate dominated, unfrozen downcast), a fresh allocation, or the "
            "comprehension handler; unchecked accessors have one caller; DictMut/SetMut only from a successful "
            "try_borrow_mut; UnsafeCell fields of unsafe-Sync types have reviewed complete writer sets. Added after seeded changes: in-place operators (+=, |=) return Ok on the mutable-type arm only after the checked downcast succeeded; generic payload types are substituted before the value-bearing test.",
            "Not decided: value equality before/after freeze, hash stability, atomicity of failed mutations. Trusted: "
            "rustc front end, svfacts, value-bearing type predicate, reviewed writer table.",
            "DESIGN.md section 2, C04"),
    "C02": ("call-graph effect reachability from speculative natives + K9 table extraction of the purity/inlining "
            "classifiers + branch-sensitive MIR dominance of fold/inline guards + constant-argument extraction",
            "Structural clauses only: no native registered speculative_exec_safe reaches a call-back into user code, a "
            "mutation entry point, a module-slot write or print (resolved call graph incl. vtable dispatch); the "
            "speculation gate; is_pure_infallible / is_pure_infallible_to_bool / is_safe_to_inline_expr map every "
            "fallible or effectful IR node to false/None (extracted from the MIR switch); dead statements, branches and "
            "loops are removed only on the classifier's true/Some edge; a module global is inlined only under "
            "assign_count==AtMostOnce and frozen; folds only on the success edge with builtin constant operands; no "
            "unwrap of an evaluation result in the compiler; inlining guards (no *args/**kwargs, safe body, only "
            "parameter locals, untyped defs); assignment counting single-sourced (AtMostOnce only outside loops, Any "
            "on re-assignment, For passes InLoop::Yes); definitely-assigned save/restore pairing, unchecked mov only "
            "when definitely assigned, conditional operands never marked, param_count counts the slotted parameters. Added after seeded changes: the Dict arm of the purity classifiers (pure only when empty), is_iterable_empty needs an iterable builtin constant, param_count counts the slotted parameters, restore after every continuation.",
            "Not decided: that each fold computes the right value; substitution correctness; frozen re-optimisation "
            "equivalence. Trusted: rustc front end, svfacts, call-graph model, sink table.",
            "DESIGN.md section 2, C02"),
    "C05": ("who-may-read layering rule + control-dependence of error recording on dialect flag branches (MIR)",
            "One clause only ('enabling more dialect features never rejects an accepted file nor changes its tree'): no "
            "lexer/parser/cursor function reads a Dialect field; around each of the 10 flag tests an error is recorded "
            "only on blocks reachable solely through the disabled edge; every 'not allowed in this dialect' message is "
            "under such an edge. An enum-valued flag tested with `match` is handled by a monotonicity clause over its variants.",
            "Not decided (the bulk of C05): absence of panics in lexer/parser index arithmetic, span containment, "
            "char boundaries - runtime values. Trusted: rustc front end, svfacts.",
            "DESIGN.md section 2, C05"),
    "C06": ("K9 table extraction from the MIR switch of infix_binding_power checked against an encoded reference "
            "precedence relation + sibling agreement + first-set agreement",
            "Precedence/first-set clauses only: token->operator pairing, uniform power inside a class, left "
            "associativity, strictly ordered classes, `not`/`not in` literals equal to the comparison class; the two "
            "copies of the infix and postfix loops agree; is_expr_start covers every token the atom/unary/not-prefix "
            "parsers accept.",
            "Not decided: acceptance equality with the reference grammar for statements/arguments; print/parse round "
            "trip. Trusted: the encoded reference precedence classes (Starlark spec), rustc front end, svfacts.",
            "DESIGN.md section 2, C06"),
    "C09": ("impl-table sibling agreement + must-pass-through to the shared numeric hash + provenance-pair inventory "
            "(backward slice) of Hashed::new_unchecked",
            "Hashing-coherence clauses only: small int / big int / float override the same hash entry points and "
            "funnel through NumRef::get_hash_64 / get_hash, feeding the hasher exactly that u64; every "
            "Hashed::new_unchecked pairs hash and key with a reviewed provenance pair; frozen/unfrozen sibling types "
            "override the same hash/equality entry points. Added: sequence equality compares lengths before zipping (R4).",
            "Not decided: reflexivity/symmetry/transitivity, ordering totality, sort stability. Trusted: reviewed pair "
            "table, rustc front end, svfacts.",
            "DESIGN.md section 2, C09"),
    "C10": ("who-may-construct inventory + branch-sensitive dominance (Err edge of try_from) + intrinsic ban with "
            "positive control + source inventory of inline payloads",
            "Structural clauses only: StarlarkInt::Big only on the Err edge of InlineInt::try_from (or copies); "
            "InlineInt constructed only at reviewed sites after the range test; no wrapping/overflowing/unchecked/"
            "saturating integer intrinsic in the numeric modules; every StarlarkInt::Small payload comes from a "
            "checked/closed operation, conversion or constant; float->int casts validated by a round trip. Primitive checked_shl (checks only the shift amount) is part of the intrinsic ban.",
            "Not decided: that each checked fast path / bigint fallback computes the right number (floor semantics, "
            "shift thresholds, string conversion). Trusted: rustc front end, svfacts.",
            "DESIGN.md section 2, C10"),
    "C11": ("paired-update rule over SmallMap methods + precondition inventory with idiom recognition (fresh container "
            "from one source, failed-lookup dominance, forwarders)",
            "Two clauses: every SmallMap method that structurally mutates the entry vector maintains the index in the "
            "same body or holds the RebuildIndexOnDrop guard constructed before the mutation (its drop rebuilds); every "
            "duplicate-unchecked insertion is a forwarder, a fresh-container copy/subset of one map/set, dominated by a "
            "failed lookup, or reviewed. Added after a seeded change: every path through SmallMap::clear empties the index, drops it or finds it absent.",
            "Not decided: the index adjustment arithmetic (history property). Trusted: reviewed table, rustc front end.",
            "DESIGN.md section 2, C11"),
    "C14": ("inventories with type-based exemption and reviewed tables: hash-order iteration sites, address accessors, "
            "pointer-to-integer casts, ambient-input reads; impl inventory of identity types",
            "Structural clauses only: every iteration over a std HashMap/HashSet with the randomly seeded default hasher "
            "is a reviewed order-insensitive site (maps with StarlarkHasherBuilder exempt by type); ValueIdentity / "
            "RawPointer / FrozenHeapPtr implement neither Ord nor Display; address accessors and pointer-to-integer "
            "casts only in reviewed functions, none an observable-output body; clock/randomness/thread/env reads only "
            "in profiling, timing and the serialization nonce.",
            "Not decided: byte-identical transcripts across processes. A new benign site of an inventoried construct is "
            "reported until reviewed (the stated K7 trade-off). Trusted: the reviewed tables.",
            "DESIGN.md section 2, C14"),
    "C16": ("K3 component coverage of every TypeMatcher::matches body + call-graph funnel reachability",
            "Two clauses: every matcher struct's matches() consults each of its components; isinstance, InstrIsInstance, "
            "InstrCheckType, InstrReturnCheckType, parameter/return checks all reach TypeCompiled::matches, which "
            "dispatches through the type_matches_value vtable op, called from nowhere else. Added after a seeded change: an element-wise zip in a matcher is guarded by an equality test of the two lengths.",
            "Not decided: that each specialised matcher denotes the documented set. Trusted: rustc front end, svfacts, "
            "call-graph model.",
            "DESIGN.md section 2, C16"),
    "C17": ("inventory of randomly seeded hash iteration inside typing/ and analysis/ (C14.R1 restricted)",
            "One clause only ('gives the same diagnostics each time'): the 7 iterations over std HashMap/HashSet in the "
            "type checker and lint analyses are reviewed order-insensitive sites.",
            "Not decided: termination, soundness, absence of false positives. Trusted: reviewed table.",
            "DESIGN.md section 2, C17"),
    "C18": ("call-graph effect reachability from the profile recorders + who-may-call chain of the interpreter loop + "
            "K9 arm analysis of enable_profile",
            "Three clauses: the 7 profile recorders reach no effect sink (user call-back, mutation, slot write, print); "
            "one interpreter (dispatch-for-execution only in step <- run_block <- Bc::run, instantiated with the "
            "disabled or enabled callbacks only; the callback precedes dispatch and its error skips the instruction); "
            "every heap profile mode sets disable_gc.",
            "Not decided: breakpoint hit counts, variable views, stepping. Trusted: call-graph model, sink table.",
            "DESIGN.md section 2, C18"),
    "C20": ("unsafe impl Send/Sync inventory with cell writer sets + static inventory by type + atomic ordering "
            "constant extraction and branch-sensitive dominance of dealloc",
            "Structural clauses only: every unsynchronised cell in a type made Sync by unsafe impl has a reviewed "
            "complete writer set; every non-Freeze static is of a race-free cell type or reviewed, no static mut; "
            "Chunk::drop decrements with SeqCst/AcqRel and deallocates only when the previous count was 1.",
            "Not decided: absence of data races under real interleavings. Trusted: reviewed tables, rustc Freeze query.",
            "DESIGN.md section 2, C20"),
    "C19": ("dataflow from the internal character column (ResolvedPos.column) into lsp_types::Position.character "
            "and back, requiring a UTF-16 conversion on the way",
            "One clause only ('ranges denote positions under the protocol's UTF-16 column convention'): every "
            "lsp_types::Position built from an internal column, and every client position used as an internal column, "
            "must pass through a UTF-16 conversion. Today none does: a genuine defect (known finding, demonstrated on "
            "a document with a non-BMP character); the check reports it as KNOWN-FINDING and would report any new "
            "unconverted site.",
            "Not decided: that the server never crashes or hangs, and agreement of go-to-definition with the "
            "compiler's scope resolver (value-level relations between two tree walks). The quick tier sees the "
            "conversion in starlark_syntax; the starlark_lsp sites are analysed in the thorough tier (configuration "
            "`full`). Trusted: rustc front end, svfacts.",
            "DESIGN.md section 8.6"),
}


# rules added in rounds 3-5 (DESIGN.md sections 8.7-8.9), appended to the level text of each property
ADDED = {
    "C02": "R6: the int-specialised equality instruction falls back to the generic equality for operands of another type. R7: the `type(x) == T` inlining is built only under a test that the parameter is positional; R8: post_freeze optimises against the def's own module; R9: assignments, augmented assignments and returns are never optimised away; R10: optimize reads every component of the statement it rebuilds.",
    "C04": "R5: every native that takes the mutable view of a list/dict/set on some path takes it on every successful path. R6: an augmented assignment is never optimised away (shared with C02.R9).",
    "C05": "R3: byte offsets in the lexer are computed only from positions, byte lengths and constants; R4: no "
           "`pos() - const` after a helper consumed an unknown number of characters (error spans on char boundaries). R5: the panicking CodeMap line accessors are called only by reviewed callers whose line number comes from the same map.",
    "C06": "R4: all three slice components are optional (expression-free CFG paths after each colon). R5: Dedent tokens are emitted only after the new indentation was found equal to an open level.",
    "C07": "R8 extended to range slicing (bounds from position-producing std functions / validated conversions); R9: every "
           "overflow-checked signed + - * is proven exact by interval analysis or reviewed; R10: module slot reads are total "
           "after a failed evaluation; the depth-counter balance rule accepts the guard before or after the write. R12: the top of the preallocated call stack is located through `count`, never through the whole array.",
    "C09": "R6: nothing reachable from number comparison rounds an integer of arbitrary size to a float (exact mixed "
           "int/float comparison, transitivity); R7: struct ordering compares values in key-sorted order.",
    "C10": "R4: float<->int `as` casts in the number code are exact by width (<= 32 bits) or reviewed. R5: the panicking small-int % and / are reached only after a sign test or a test of the dividend.",
    "C12": "R5: a builtin that iterates an argument and calls back into Starlark keeps the iterator alive during the callbacks. R7: the iterator adapter releases the container only when iter_next reported exhaustion.",
    "C13": "R4: the reference sets of Heap/FrozenHeap only grow (who-may-write, no take/clear/replace).",
    "C14": "R4: the thread-local recursion-depth counter is written only together with the guard that restores it.",
    "C16": "R3: the annotation of *args/**kwargs is applied element-wise; R4: union normalisation merges no alternatives "
           "(two known findings); R5: typing types (Ord by name, Eq by id) are never keys of ordered collections. R6: the annotation of an assignment survives the re-optimisation on freeze; R7: record/enum type identity must be unique per created type (two known findings).",
    "C17": "R2: an aliased load is typed under the exported name, as the evaluator looks it up. R3: typing code never unwraps the scope-resolution payload of an identifier.",
    "C18": "R4: the debugger's breakpoint-suppression counter is lowered on every exit of evaluate_expr (or by a Drop guard). R5: the debugger's breakpoint table is keyed by position (Span), never by a CodeMap-identity type.",
    "C19": "R2: the IDE binder visits the first comprehension iterable into the enclosing scope, like the compiler "
           "(quick tier uses the `full` extraction, which contains the LSP crate). R3: editor-supplied line numbers never reach a panicking line accessor; R4: every unwrap/expect of the LSP crate is a reviewed site; R5: client columns are never added to a Pos with the checked `+`.",
    "C20": "R4: only values allocated by the running freezer are registered for FrozenDef::post_freeze. R2 additionally requires that statics holding value addresses are thread-local.",
    "C03": "R1 also requires that a generic container's Trace impl reaches the trace of every Trace-bounded type parameter.",
    "C11": "R3: the hash index of a map is only replaced by None or by a table filled from the entries.",
    "C15": "unchanged in rounds 3-5 (seeds C15-3 and C15-5 were caught by R1 / R2 as first written).",
}

CLAIMS["C08"] = (
    "MIR branch-edge domination (fast-path guard) + failure-exit inventory + who-may-call funnel",
    "Structural clauses only: R1 the binder's all-positional fast path (collect_inline_impl) is entered only through "
    "the true edges of all five of its conditions (positional count equals positional parameters and all parameters, "
    "no named arguments, no *args, no **kwargs); R2 every class of ill-formed call has a failure exit in collect_slow "
    "(RepeatedArg by position/name and through **kwargs, ExtraPositionalArg, ExtraNamedArg, non-string **kwargs key, "
    "non-iterable *args, non-dict **kwargs, the unfilled-required arm always errs with three distinct messages) and "
    "defaults are read; R3 one binder: collect_slow is reached only through collect_inline, and defs, natives "
    "(parser) and host collect all bind through collect_inline.",
    "Not decided: that each argument lands in the right slot for every signature x call shape (index arithmetic of one "
    "loop nest; needs enumeration), call-site packaging of arguments. Trusted: rustc front end, svfacts, CFG kernels.",
    "DESIGN.md section 8.8")


def main():
    checks = []
    for p in sorted(CLAIMS):
        tech, text, note, ref = CLAIMS[p]
        if p in ADDED:
            text = text + " Added in rounds 3-5: " + ADDED[p]
        checks.append(dict(
            property_id=p,
            quick_cmd="./check %s --tier quick" % p,
            thorough_cmd="./check %s --tier thorough" % p,
            evidence_file="evidence/%s.json" % p,
            replay_cmd_template="./check %s --replay {path}" % p,
            engine="svrules",
            level_claimed=dict(category="other", text=text, design_ref=ref),
            level_note=note,
            technique="static analysis: " + tech,
        ))
    na = []
    for i in range(1, 21):
        p = "C%02d" % i
        if p in CLAIMS:
            continue
        na.append(dict(property_id=p, reason=NA.get(p, NOT_BUILT)))
    m = dict(
        version=1,
        setup_cmd="./setup.sh",
        hooks=dict(guard="starlark_verif", enable="none needed: static analysis reads the unmodified sources "
                                                  "(no instrumentation in /repo)",
                   baseline_off_cmd="cd /repo && cargo test --workspace --no-fail-fast --offline",
                   source_commits=[], add_only=True),
        engines=[
            dict(name="svfacts", path="svfacts/", serves_properties=sorted(CLAIMS),
                 kind_free_text="rustc_private driver (nightly) injected via RUSTC_WORKSPACE_WRAPPER under cargo check; "
                                "dumps ADT/impl/static facts and MIR (statements, resolved calls, terminators) per crate"),
            dict(name="svrules", path="svrules/", serves_properties=sorted(CLAIMS),
                 kind_free_text="Python rule engine over the facts: CFG dominance/must-pass-through, call graph with "
                                "vtable modelling, backward slicing, who-may-call, coverage, inventories"),
        ],
        checks=checks,
        not_applicable=na,
        notes="All checks are static: nothing executes starlark-rust code. Facts are re-extracted from /repo's working "
              "tree whenever any .rs/Cargo file changes (content hash), shared between checks. Known genuine defects "
              "are listed in known_findings.json and printed as KNOWN-FINDING lines.",
    )
    with open(os.path.join(HERE, "MANIFEST.json"), "w") as fh:
        json.dump(m, fh, indent=1)
        fh.write("\n")


if __name__ == "__main__":
    main()
