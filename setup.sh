#!/bin/bash
# Build the framework from files on disk only (offline).
set -e
cd "$(dirname "$0")"
export CARGO_NET_OFFLINE=true
(cd svfacts && cargo +nightly build --release --offline 2>&1 | tail -2)
# warm the dependency artefacts + run one extraction of the current tree (shared by all checks)
python3 svrules/extract.py core /repo
echo "setup done"
