#![feature(rustc_private)]
extern crate rustc_abi;
extern crate rustc_driver;
extern crate rustc_hir;
extern crate rustc_interface;
extern crate rustc_middle;
extern crate rustc_span;

use rustc_driver::Compilation;
use rustc_hir::def::DefKind;
use rustc_middle::mir::{
    AggregateKind, Body, Const, Operand, Place, ProjectionElem, Rvalue, StatementKind,
    TerminatorKind,
};
use rustc_middle::ty::print::PrintTraitRefExt;
use rustc_middle::ty::{self, Instance, Ty, TyCtxt, TypingEnv};
use rustc_span::def_id::{DefId, LOCAL_CRATE};
use std::fmt::Write as _;
use std::io::Write;

struct Cb;

fn esc(s: &str) -> String {
    s.replace('\t', " ").replace('\n', " ")
}

fn place_str<'tcx>(tcx: TyCtxt<'tcx>, body: &Body<'tcx>, p: &Place<'tcx>) -> String {
    let mut s = format!("_{}", p.local.as_usize());
    for (base, elem) in p.iter_projections() {
        match elem {
            ProjectionElem::Deref => s.push_str(".*"),
            ProjectionElem::Field(f, _) => {
                let pty = base.ty(&body.local_decls, tcx);
                match pty.ty.kind() {
                    ty::Adt(adt, _) => {
                        let v = match pty.variant_index {
                            Some(v) => adt.variant(v),
                            None => {
                                if adt.is_enum() {
                                    let _ = write!(s, ".#{}", f.as_usize());
                                    continue;
                                } else {
                                    adt.non_enum_variant()
                                }
                            }
                        };
                        let fd = &v.fields[f];
                        let _ = write!(s, ".{{{}::{}}}", tcx.def_path_str(adt.did()), fd.name);
                    }
                    _ => {
                        let _ = write!(s, ".#{}", f.as_usize());
                    }
                }
            }
            ProjectionElem::Downcast(name, vi) => {
                let _ = match name {
                    Some(n) => write!(s, ".as<{}>", n),
                    None => write!(s, ".as<#{}>", vi.as_usize()),
                };
            }
            ProjectionElem::Index(l) => {
                let _ = write!(s, ".[_{}]", l.as_usize());
            }
            ProjectionElem::ConstantIndex { offset, from_end, .. } => {
                let _ = write!(s, ".[c{}{}]", if from_end { "-" } else { "" }, offset);
            }
            ProjectionElem::Subslice { .. } => s.push_str(".[..]"),
            ProjectionElem::OpaqueCast(_) => s.push_str(".opaque"),
            ProjectionElem::UnwrapUnsafeBinder(_) => s.push_str(".unbind"),
        }
    }
    s
}

fn opnd_str<'tcx>(tcx: TyCtxt<'tcx>, body: &Body<'tcx>, op: &Operand<'tcx>) -> String {
    match op {
        Operand::Copy(p) => format!("copy {}", place_str(tcx, body, p)),
        Operand::Move(p) => format!("move {}", place_str(tcx, body, p)),
        Operand::Constant(c) => {
            let ty = c.const_.ty();
            match ty.kind() {
                ty::FnDef(did, args) => {
                    format!("constfn {} @{}", esc(&tcx.def_path_str_with_args(*did, args)), uid(tcx, *did))
                }
                ty::Ref(_, inner, _) if inner.is_str() => esc(&format!("conststr {}", c.const_)),
                _ => match c.const_ {
                    Const::Val(v, ty) => esc(&format!("const {:?}: {}", v, ty)),
                    _ => esc(&format!("const {}", c.const_)),
                },
            }
        }
        #[allow(unreachable_patterns)]
        _ => esc(&format!("{:?}", op)),
    }
}

fn uid<'tcx>(tcx: TyCtxt<'tcx>, did: DefId) -> String {
    format!("{}{}", tcx.crate_name(did.krate), tcx.def_path(did).to_string_no_crate_verbose())
}

fn ty_str<'tcx>(ty: Ty<'tcx>) -> String {
    esc(&format!("{}", ty))
}

fn ty_flags<'tcx>(ty: Ty<'tcx>) -> String {
    use rustc_middle::ty::TypeVisitableExt;
    let mut f = String::new();
    if ty.has_param() {
        f.push('P');
    }
    if ty.has_free_regions() || ty.has_erased_regions() {
        f.push('R');
    }
    f
}

fn dump_adts<'tcx>(tcx: TyCtxt<'tcx>, buf: &mut String) {
    for id in tcx.hir_free_items() {
        let did = id.owner_id.to_def_id();
        let kind = tcx.def_kind(did);
        if !matches!(kind, DefKind::Struct | DefKind::Enum | DefKind::Union) {
            continue;
        }
        let adt = tcx.adt_def(did);
        let generics = tcx.generics_of(did);
        let gn: Vec<String> = generics.own_params.iter().map(|p| p.name.to_string()).collect();
        let span = tcx.sess.source_map().span_to_diagnostic_string(tcx.def_span(did));
        let self_ty = tcx.type_of(did).instantiate_identity().skip_norm_wip();
        let tenv = TypingEnv::post_analysis(tcx, did);
        let freeze = self_ty.is_freeze(tcx, tenv);
        let _ = writeln!(
            buf,
            "ADT\t{}\t{:?}\t{}\t{}\tfreeze={}",
            tcx.def_path_str(did),
            kind,
            gn.join(","),
            span,
            freeze
        );
        for (vi, v) in adt.variants().iter_enumerated() {
            let dv = if adt.is_enum() {
                format!("{}", adt.discriminant_for_variant(tcx, vi).val)
            } else {
                "-".to_string()
            };
            let _ = writeln!(buf, "  VARIANT\t{}\t{}\t{}", v.name, dv, vi.as_usize());
            for fd in &v.fields {
                let fty = tcx.type_of(fd.did).instantiate_identity().skip_norm_wip();
                let ffreeze = fty.is_freeze(tcx, tenv);
                let _ = writeln!(
                    buf,
                    "  FIELD\t{}\t{}\t{}\t{}\tfreeze={}",
                    v.name,
                    fd.name,
                    ty_str(fty),
                    ty_flags(fty),
                    ffreeze
                );
            }
        }
    }
}

fn dump_impls<'tcx>(tcx: TyCtxt<'tcx>, buf: &mut String) {
    for id in tcx.hir_free_items() {
        let did = id.owner_id.to_def_id();
        match tcx.def_kind(did) {
            DefKind::Impl { of_trait } => {
                let self_ty = tcx.type_of(did).instantiate_identity().skip_norm_wip();
                let self_adt = match self_ty.kind() {
                    ty::Adt(a, _) => tcx.def_path_str(a.did()),
                    _ => "-".to_string(),
                };
                let (tr, safety) = if of_trait {
                    let h = tcx.impl_trait_header(did);
                    let tref = h.trait_ref.instantiate_identity().skip_norm_wip();
                    (
                        esc(&format!("{}", tref.print_only_trait_path())),
                        format!("{:?}/{:?}", h.safety, h.polarity),
                    )
                } else {
                    ("-".to_string(), "-".to_string())
                };
                let items: Vec<String> = tcx
                    .associated_items(did)
                    .in_definition_order()
                    .filter_map(|i| i.opt_name().map(|n| n.to_string()))
                    .collect();
                let span = tcx.sess.source_map().span_to_diagnostic_string(tcx.def_span(did));
                let preds: Vec<String> = tcx
                    .predicates_of(did)
                    .instantiate_identity(tcx)
                    .predicates
                    .iter()
                    .map(|p| esc(&format!("{}", p.skip_norm_wip())))
                    .collect();
                let _ = writeln!(
                    buf,
                    "IMPL\t{}\t{}\t{}\t{}\t{}\t{}\t{}\t{}",
                    tcx.def_path_str(did),
                    tr,
                    ty_str(self_ty),
                    self_adt,
                    safety,
                    items.join(","),
                    span,
                    preds.join(" && ")
                );
            }
            DefKind::Static { mutability, .. } => {
                let ty = tcx.type_of(did).instantiate_identity().skip_norm_wip();
                let tenv = TypingEnv::post_analysis(tcx, did);
                let span = tcx.sess.source_map().span_to_diagnostic_string(tcx.def_span(did));
                let _ = writeln!(
                    buf,
                    "STATIC\t{}\t{}\t{:?}\tfreeze={}\t{}",
                    tcx.def_path_str(did),
                    ty_str(ty),
                    mutability,
                    ty.is_freeze(tcx, tenv),
                    span
                );
            }
            _ => {}
        }
    }
}

fn callee_strs<'tcx>(
    tcx: TyCtxt<'tcx>,
    tenv: TypingEnv<'tcx>,
    body: &Body<'tcx>,
    func: &Operand<'tcx>,
) -> (String, String, String) {
    let fty = func.ty(&body.local_decls, tcx);
    match fty.kind() {
        ty::FnDef(cdid, substs) => {
            let generic = format!("{} @{}", esc(&tcx.def_path_str(*cdid)), uid(tcx, *cdid));
            let full = esc(&tcx.def_path_str_with_args(*cdid, substs));
            let resolved = match Instance::try_resolve(tcx, tenv, *cdid, substs) {
                Ok(Some(inst)) => {
                    let d = inst.def_id();
                    if d == *cdid {
                        "=".to_string()
                    } else {
                        format!("{} @{}", esc(&tcx.def_path_str(d)), uid(tcx, d))
                    }
                }
                _ => "?".to_string(),
            };
            (generic, full, resolved)
        }
        _ => {
            let src = match func {
                Operand::Copy(p) | Operand::Move(p) => place_str(tcx, body, p),
                _ => "const".to_string(),
            };
            ("INDIRECT".to_string(), format!("{} : {}", src, ty_str(fty)), "?".to_string())
        }
    }
}

fn impl_info<'tcx>(tcx: TyCtxt<'tcx>, did: DefId) -> String {
    // For closures, walk up to the enclosing fn.
    let mut d = did;
    while matches!(tcx.def_kind(d), DefKind::Closure | DefKind::InlineConst | DefKind::AnonConst) {
        d = tcx.parent(d);
    }
    if !matches!(tcx.def_kind(d), DefKind::AssocFn) {
        return "-\t-".to_string();
    }
    let parent = tcx.parent(d);
    match tcx.def_kind(parent) {
        DefKind::Impl { of_trait } => {
            let self_ty = tcx.type_of(parent).instantiate_identity().skip_norm_wip();
            let tr = if of_trait {
                let h = tcx.impl_trait_header(parent);
                esc(&format!(
                    "{}",
                    h.trait_ref.instantiate_identity().skip_norm_wip().print_only_trait_path()
                ))
            } else {
                "-".to_string()
            };
            format!("{}\t{}", tr, ty_str(self_ty))
        }
        DefKind::Trait => format!("TRAITDEFAULT {}\t-", tcx.def_path_str(parent)),
        _ => "-\t-".to_string(),
    }
}

fn dump_fns<'tcx>(tcx: TyCtxt<'tcx>, buf: &mut String) -> usize {
    let mut nfn = 0;
    for ldid in tcx.hir_body_owners() {
        let did = ldid.to_def_id();
        let kind = tcx.def_kind(did);
        if !matches!(kind, DefKind::Fn | DefKind::AssocFn | DefKind::Closure) {
            continue;
        }
        if !tcx.is_mir_available(did) {
            continue;
        }
        let body = tcx.optimized_mir(did);
        nfn += 1;
        let span = tcx.sess.source_map().span_to_diagnostic_string(body.span);
        let parent = if matches!(kind, DefKind::Closure) {
            uid(tcx, tcx.parent(did))
        } else {
            "-".to_string()
        };
        let _ = writeln!(
            buf,
            "FN\t{} @{}\t{:?}\t{}\t{}\t{}\targs={}",
            tcx.def_path_str(did),
            uid(tcx, did),
            kind,
            span,
            parent,
            impl_info(tcx, did),
            body.arg_count
        );
        for (l, d) in body.local_decls.iter_enumerated() {
            let _ = writeln!(buf, "  L\t_{}\t{}", l.as_usize(), ty_str(d.ty));
        }
        let tenv = TypingEnv::post_analysis(tcx, did);
        for (bb, data) in body.basic_blocks.iter_enumerated() {
            let bbn = bb.as_usize();
            if data.is_cleanup {
                let _ = writeln!(buf, "  B\t{}\tcleanup", bbn);
            }
            for st in &data.statements {
                if let StatementKind::Assign(b) = &st.kind {
                    let (place, rv) = &**b;
                    let lhs = place_str(tcx, body, place);
                    let sline = tcx.sess.source_map().lookup_char_pos(st.source_info.span.lo()).line;
                    match rv {
                        Rvalue::Use(op, _) => {
                            let _ = writeln!(buf, "  S\t{}\t{}\t{}\tuse\t{}", bbn, sline, lhs, opnd_str(tcx, body, op));
                        }
                        Rvalue::Ref(_, bk, p) => {
                            let m = matches!(bk, rustc_middle::mir::BorrowKind::Mut { .. });
                            let _ = writeln!(
                                buf,
                                "  S\t{}\t{}\t{}\t{}\t{}",
                                bbn, sline, lhs,
                                if m { "refmut" } else { "ref" },
                                place_str(tcx, body, p)
                            );
                        }
                        Rvalue::RawPtr(k, p) => {
                            let _ = writeln!(buf, "  S\t{}\t{}\t{}\trawptr {:?}\t{}", bbn, sline, lhs, k, place_str(tcx, body, p));
                        }
                        Rvalue::Cast(ck, op, ty) => {
                            let from = op.ty(&body.local_decls, tcx);
                            let _ = writeln!(
                                buf,
                                "  S\t{}\t{}\t{}\tcast {:?}\t{}\t{} -> {}",
                                bbn, sline, lhs,
                                ck,
                                opnd_str(tcx, body, op),
                                ty_str(from),
                                ty_str(*ty)
                            );
                        }
                        Rvalue::BinaryOp(op, ab) => {
                            let (a, b2) = &**ab;
                            let t = a.ty(&body.local_decls, tcx);
                            let _ = writeln!(
                                buf,
                                "  S\t{}\t{}\t{}\tbinop {:?}\t{} , {}\t{}",
                                bbn, sline, lhs,
                                op,
                                opnd_str(tcx, body, a),
                                opnd_str(tcx, body, b2),
                                ty_str(t)
                            );
                        }
                        Rvalue::UnaryOp(op, a) => {
                            let t = a.ty(&body.local_decls, tcx);
                            let _ = writeln!(buf, "  S\t{}\t{}\t{}\tunop {:?}\t{}\t{}", bbn, sline, lhs, op, opnd_str(tcx, body, a), ty_str(t));
                        }
                        Rvalue::Discriminant(p) => {
                            let t = p.ty(&body.local_decls, tcx).ty;
                            let _ = writeln!(buf, "  S\t{}\t{}\t{}\tdiscr\t{}\t{}", bbn, sline, lhs, place_str(tcx, body, p), ty_str(t));
                        }
                        Rvalue::Aggregate(ak, ops) => {
                            let os: Vec<String> = ops.iter().map(|o| opnd_str(tcx, body, o)).collect();
                            let k = match &**ak {
                                AggregateKind::Adt(adid, vidx, _, _, _) => {
                                    let adt = tcx.adt_def(*adid);
                                    format!("adt {}::{}", tcx.def_path_str(*adid), adt.variant(*vidx).name)
                                }
                                AggregateKind::Closure(cdid, _) => format!("closure {} @{}", tcx.def_path_str(*cdid), uid(tcx, *cdid)),
                                AggregateKind::Tuple => "tuple".to_string(),
                                AggregateKind::Array(_) => "array".to_string(),
                                _ => "other".to_string(),
                            };
                            let _ = writeln!(buf, "  S\t{}\t{}\t{}\tagg {}\t{}", bbn, sline, lhs, esc(&k), os.join(" | "));
                        }
                        Rvalue::Repeat(op, _) => {
                            let _ = writeln!(buf, "  S\t{}\t{}\t{}\trepeat\t{}", bbn, sline, lhs, opnd_str(tcx, body, op));
                        }
                        _ => {
                            let _ = writeln!(buf, "  S\t{}\t{}\t{}\tother\t{}", bbn, sline, lhs, esc(&format!("{:?}", rv)));
                        }
                    }
                }
            }
            if let Some(term) = &data.terminator {
                let line = tcx.sess.source_map().lookup_char_pos(term.source_info.span.lo()).line;
                match &term.kind {
                    TerminatorKind::Call { func, args, destination, target, unwind, .. } => {
                        let (g, full, res) = callee_strs(tcx, tenv, body, func);
                        let a: Vec<String> = args.iter().map(|o| opnd_str(tcx, body, &o.node)).collect();
                        let _ = writeln!(
                            buf,
                            "  C\t{}\t{}\t{}\t{}\t{}\t{}\t{}\t{:?}\tline={}\texp={}",
                            bbn,
                            place_str(tcx, body, destination),
                            g,
                            full,
                            res,
                            a.join(" | "),
                            target.map(|t| t.as_usize() as i64).unwrap_or(-1),
                            unwind,
                            line,
                            term.source_info.span.from_expansion()
                        );
                    }
                    TerminatorKind::SwitchInt { discr, targets } => {
                        let ts: Vec<String> = targets.iter().map(|(v, t)| format!("{}:{}", v, t.as_usize())).collect();
                        let _ = writeln!(
                            buf,
                            "  T\t{}\tswitch\t{}\t{}\totherwise:{}",
                            bbn,
                            opnd_str(tcx, body, discr),
                            ts.join(","),
                            targets.otherwise().as_usize()
                        );
                    }
                    TerminatorKind::Goto { target } => {
                        let _ = writeln!(buf, "  T\t{}\tgoto\t{}", bbn, target.as_usize());
                    }
                    TerminatorKind::Return => {
                        let _ = writeln!(buf, "  T\t{}\treturn", bbn);
                    }
                    TerminatorKind::Unreachable => {
                        let _ = writeln!(buf, "  T\t{}\tunreachable", bbn);
                    }
                    TerminatorKind::Drop { place, target, unwind, .. } => {
                        let _ = writeln!(buf, "  T\t{}\tdrop\t{}\t{}\t{:?}", bbn, place_str(tcx, body, place), target.as_usize(), unwind);
                    }
                    TerminatorKind::Assert { target, msg, .. } => {
                        let _ = writeln!(buf, "  T\t{}\tassert\t{}\t{}\tline={}", bbn, target.as_usize(), esc(&format!("{:?}", msg)).chars().take(60).collect::<String>(), line);
                    }
                    other => {
                        let succ: Vec<String> = term.successors().map(|s| s.as_usize().to_string()).collect();
                        let _ = writeln!(buf, "  T\t{}\tother {}\t{}", bbn, esc(&format!("{:?}", std::mem::discriminant(other))), succ.join(","));
                    }
                }
            }
        }
    }
    nfn
}

impl rustc_driver::Callbacks for Cb {
    fn after_analysis<'tcx>(
        &mut self,
        _c: &rustc_interface::interface::Compiler,
        tcx: TyCtxt<'tcx>,
    ) -> Compilation {
        let krate = tcx.crate_name(LOCAL_CRATE).to_string();
        let out_dir = std::env::var("SVFACTS_OUT").expect("SVFACTS_OUT not set");
        let _ = std::fs::create_dir_all(&out_dir);
        let mut buf = String::new();
        let nonce = std::env::var("SVFACTS_NONCE").unwrap_or_default();
        let _ = writeln!(buf, "CRATE\t{}\t{:?}\t{}", krate, tcx.crate_types(), nonce);
        dump_adts(tcx, &mut buf);
        dump_impls(tcx, &mut buf);
        let nfn = dump_fns(tcx, &mut buf);
        let mut f = std::fs::File::create(format!(
            "{}/{}-{:x}.facts",
            out_dir,
            krate,
            tcx.stable_crate_id(LOCAL_CRATE).as_u64()
        ))
        .unwrap();
        f.write_all(buf.as_bytes()).unwrap();
        eprintln!("svfacts: crate {} fns {} bytes {}", krate, nfn, buf.len());
        Compilation::Continue
    }
}

fn main() {
    let args: Vec<String> = std::env::args().collect();
    // RUSTC_WORKSPACE_WRAPPER: argv = [svdrv, /path/to/rustc, rustc args...]; run_compiler drops its first arg.
    rustc_driver::run_compiler(&args[1..], &mut Cb);
}
